"""C02 — model, instance and body agree: every nodeset/ref names one existing node."""

from __future__ import annotations

import json
from pathlib import Path

from common import cstr, clist, cbool, rng_for
from opbase import Op, pmap
import forms
import treegen
import xf

PID = "C02"
GUARD = "names are slash-free (is_xml_tag names are XML Names); the `flat` setting (legacy ODK Tables) is outside the model"
MODELLED = ("get_xpath, Section.xml_instance / generate_repeating_template / template_instance, the nodeset/ref of xml_bindings, _build_xml, "
            "RepeatingSection/GroupedSection.xml_control, sibling and section-name validation (coq/Model/Tree.v). setvalue/action refs, entity "
            "attribute binds and stage-B generated helpers (*_count, *_other, table-list) are covered by the lxml closure oracle on real convert() output. "
            "The flat flag (Section.xml_instance_array, the flat test in get_xpath, _iter_instance_children) is modelled in coq/Model/Flat.v, "
            "for groups; names are compared through lower_ascii in the correspondence")
ASSUMPTIONS = ["the element tree is the one builder.create_survey_element_from_dict returns for the same nesting"]

JRT = "{http://openrosa.org/javarosa}template"


def python_projection(tree):
    from pyxform.builder import create_survey_element_from_dict
    from pyxform.errors import PyXFormError
    sv = create_survey_element_from_dict(treegen.to_json(tree))
    try:
        sv.validate()
    except PyXFormError:
        return None
    dom = sv.xml()
    root = xf.lparse(dom.toxml())
    X = xf.XF
    model = root.find(xf.H + "head").find(X + "model")
    inst = model.find(X + "instance")[0]
    ipaths = []

    def walk(e, pre, in_t):
        name = e.tag.split("}")[-1]
        tm = e.get(JRT) is not None
        p = pre + "/" + name
        ipaths.append(("T" if tm else ("t" if in_t else "i")) + p)
        for c in e:
            if isinstance(c.tag, str):
                walk(c, p, in_t or tm)
    walk(inst, "", False)
    binds = [b.get("nodeset") for b in model.iter(X + "bind")]
    body = root.find(xf.H + "body")
    refs = []
    for e in body.iter():
        if not isinstance(e.tag, str):
            continue
        tag = e.tag.split("}")[-1]
        if tag in ("input", "trigger", "group", "select", "select1", "upload"):
            refs.append(e.get("ref"))
        elif tag == "repeat":
            refs.append(e.get("nodeset"))
    return "\n".join(ipaths) + "\x00" + "\n".join(binds) + "\x00" + "\n".join(refs) + "\x001"


class TreeOp(Op):
    """instance (with templates), bind nodesets and body refs of the real generator against Model/Tree.v"""
    name = "D.tree"
    imports = ["PX.Model.Tree"]
    fn = "tree_projection"
    in_ty = "elem"
    n_quick, n_thorough = 300, 4000

    def generate(self, rng, n):
        cases = []
        while len(cases) < n:
            t = treegen.gen_tree(rng, unique=True, max_depth=rng.choice([2, 3, 4, 5]))
            exp = python_projection(t)
            if exp is None:
                continue
            cases.append({"coq": treegen.to_coq(t), "expected": exp, "desc": {"tree": t}, "class": f"size<={min(64, 1 << treegen.size(t).bit_length())}",
                          "nontrivial": treegen.size(t) > 3})
        return cases


class ValidateOp(Op):
    """Survey.validate (sibling names, section names) against the model, on trees with planted clashes"""
    name = "D.validate"
    imports = ["PX.Model.Tree"]
    fn = "fun t => if validate t then [49%N] else [48%N]"
    in_ty = "elem"
    n_quick, n_thorough = 300, 3000

    def generate(self, rng, n):
        from pyxform.builder import create_survey_element_from_dict
        from pyxform.errors import PyXFormError
        cases = []
        for i in range(n):
            t = treegen.gen_tree(rng, unique=rng.random() < 0.3, max_depth=rng.choice([2, 3, 4]))
            sv = create_survey_element_from_dict(treegen.to_json(t))
            try:
                sv.validate()
                exp = "1"
            except PyXFormError:
                exp = "0"
            cases.append({"coq": treegen.to_coq(t), "expected": exp, "desc": {"tree": t}, "class": "accepted" if exp == "1" else "rejected"})
        return cases


class FlatOp(Op):
    """sections carrying the `flat` flag (set by the flat setting, here through the JSON API so that flat and non-flat sections mix):
    validity, the primary instance and every get_xpath() against Model/Flat.v"""
    name = "T.flat"
    imports = ["PX.Model.Warnings", "PX.Model.Flat"]
    fn = "show_flat lower_ascii"
    in_ty = "ft"
    n_quick, n_thorough = 300, 3000

    def generate(self, rng, n):
        from pyxform.builder import create_survey_element_from_dict
        from pyxform.errors import PyXFormError
        cases = []
        for _ in range(n):
            counter = [0]
            qnames = ["a", "b", "c", "A", "q1", "x_y"]

            def node(depth):
                if depth < 4 and rng.random() < 0.4:
                    counter[0] += 1
                    return ("S", f"g{counter[0]}", rng.random() < 0.6, [node(depth + 1) for _ in range(rng.randint(1, 3))])
                if rng.random() < 0.75:
                    return ("Q", rng.choice(qnames))
                counter[0] += 1
                return ("Q", f"u{counter[0]}")
            kids = [node(1) for _ in range(rng.randint(1, 4))]

            def to_json(t):
                if t[0] == "Q":
                    return {"type": "text", "name": t[1], "label": t[1]}
                return {"type": "group", "name": t[1], "label": t[1], "flat": t[2], "children": [to_json(k) for k in t[3]]}

            def to_coq(t):
                if t[0] == "Q":
                    return f"(FQ {cstr(t[1])})"
                return f"(FS {cstr(t[1])} {cbool(t[2])} {clist([to_coq(k) for k in t[3]], 'ft')})"
            d = {"type": "survey", "name": "data", "id_string": "t", "title": "t", "children": [to_json(k) for k in kids]}
            try:
                s = create_survey_element_from_dict(d)
                x = s.to_xml(validate=False, pretty_print=False)
            except PyXFormError:
                exp = "X||"
            else:
                root = xf.lparse(x)
                inst = root.find(xf.H + "head").find(xf.XF + "model").find(xf.XF + "instance")[0]

                def ren(e):
                    return etree_local(e) + "(" + "".join(ren(c) + ";" for c in e if isinstance(c.tag, str)) + ")"
                paths = [e.get_xpath().lstrip("/") for e in s.iter_descendants() if e is not s and not getattr(e, "flat", False)]
                exp = "V|" + "".join(ren(c) + ";" for c in inst if isinstance(c.tag, str)) + "|" + " ".join(paths)
            flat_n = sum(1 for _ in _walk(kids) if _[0] == "S" and _[2])
            cases.append({"coq": f"(FS {cstr('data')} false {clist([to_coq(k) for k in kids], 'ft')})", "expected": exp, "desc": {"tree": kids},
                          "class": ("valid" if exp[0] == "V" else "rejected") + f"/flat{min(flat_n, 3)}", "nontrivial": flat_n > 0})
        return cases


def _walk(kids):
    for k in kids:
        yield k
        if k[0] == "S":
            yield from _walk(k[3])


def etree_local(e):
    from lxml import etree
    return etree.QName(e).localname


def ops(tier):
    return [TreeOp(), ValidateOp(), FlatOp()]


# ---- direct oracle: reference closure and uniqueness on real convert() output -----------------------------
def audit(xform):
    root = xf.lparse(xform)
    X = xf.XF
    model = root.find(xf.H + "head").find(X + "model")
    inst = model.find(X + "instance")[0]
    probs = []
    paths, attr_paths = {}, set()

    def walk(e, pre, in_t):
        name = e.tag.split("}")[-1]
        # qualified name as written: prefix for non-default namespaces
        q = etree_qname(e)
        p = pre + "/" + q
        tm = e.get(JRT) is not None
        if not (in_t or tm):
            paths[p] = paths.get(p, 0) + 1
        else:
            paths.setdefault(p, 0)
        for a in e.attrib:
            attr_paths.add(p + "/@" + attr_qname(e, a))
        seen = {}
        for c in e:
            if isinstance(c.tag, str):
                cn = etree_qname(c)
                ctm = c.get(JRT) is not None
                if not ctm:
                    seen[cn] = seen.get(cn, 0) + 1
                walk(c, p, in_t or tm)
        dup = [k for k, v in seen.items() if v > 1]
        if dup:
            probs.append(f"sibling names not unique under {p}: {dup}")
    walk(inst, "", False)
    dupi = [p for p, n in paths.items() if n > 1]
    if dupi:
        probs.append(f"instance path occurs twice: {dupi[:3]}")

    def resolve(ref, what):
        if ref is None:
            return
        ref = ref.strip()
        if not ref.startswith("/"):
            probs.append(f"{what} is not an absolute path: {ref!r}")
            return
        if "/@" in ref:
            if ref not in attr_paths:
                probs.append(f"{what} {ref!r} names no attribute of the primary instance")
        elif ref not in paths:
            probs.append(f"{what} {ref!r} names no node of the primary instance")
    binds = [b.get("nodeset") for b in model.iter(X + "bind")]
    if None in binds:
        probs.append(f"{binds.count(None)} bind element(s) carry no nodeset: they refer to no node at all")
    for b in binds:
        resolve(b, "bind nodeset")
    if len(set(binds)) != len(binds):
        probs.append(f"a node is bound twice: {[b for b in set(binds) if binds.count(b) > 1][:3]}")
    for tag in ("setvalue", "{http://www.opendatakit.org/xforms}setgeopoint", "{http://www.opendatakit.org/xforms}recordaudio"):
        t = tag if tag.startswith("{") else X + tag
        for a in root.iter(t):
            resolve(a.get("ref"), t.split("}")[-1] + " ref")
    body = root.find(xf.H + "body")
    crefs = []
    for e in body.iter():
        if not isinstance(e.tag, str):
            continue
        tag = e.tag.split("}")[-1]
        if tag in ("input", "trigger", "select", "select1", "upload", "range", "rank"):
            if e.get("ref") is None and e.get("query") is None:
                probs.append(f"a {tag} control carries no ref: it refers to no node at all")
            resolve(e.get("ref"), f"{tag} ref")
            crefs.append(e.get("ref"))
        elif tag == "group" and e.get("ref") is not None:
            resolve(e.get("ref"), "group ref")
        elif tag == "repeat":
            resolve(e.get("nodeset"), "repeat nodeset")
    if len(set(crefs)) != len(crefs):
        probs.append(f"two body controls share a ref: {[c for c in set(crefs) if crefs.count(c) > 1][:3]}")
    return probs


def etree_qname(e):
    from lxml import etree
    q = etree.QName(e)
    pre = e.prefix
    return f"{pre}:{q.localname}" if pre else q.localname


def attr_qname(e, a):
    if a.startswith("{"):
        uri, local = a[1:].split("}")
        for p, u in e.nsmap.items():
            if u == uri and p:
                return f"{p}:{local}"
        return local
    return a


def plant_clash(rng, form):
    """a catalogued ambiguity: the form must then be rejected"""
    survey = form["survey"]
    named = [r for r in survey if r.get("name")]
    if len(named) < 2:
        return None
    kind = rng.choice(["sibling_case", "sibling_exact", "generated_count", "generated_other", "meta", "section_twice", "root_name", "two_audits", "flat_dup", "flat_dup"])
    if kind == "two_audits":
        # every audit row is renamed `audit` and moved into meta, wherever it sits
        survey.insert(rng.randint(0, len(survey)) if not any(r["type"].startswith(("begin", "end")) for r in survey) else 0, {"type": "audit", "name": "audit"})
        survey.append({"type": "audit", "name": rng.choice(["audit", "a2"]), "parameters": "track-changes=true"})
        return kind
    if kind == "flat_dup":
        # with the flat setting, children of groups become children of the group's parent: same names in different groups collide
        grp_rows = [r for r in survey if r["type"].startswith("begin") and "group" in r["type"]]
        if not grp_rows:
            return None
        g = rng.choice(grp_rows)
        i0 = survey.index(g)
        depth, inner = 0, []
        for r in survey[i0:]:
            depth += r["type"].startswith("begin") - r["type"].startswith("end")
            if depth == 0:
                break
            if depth == 1 and r is not g and r.get("name") and not r["type"].startswith("begin"):
                inner.append(r)
        if not inner:
            return None
        # only when no repeat lies between the group and the root (a flat repeat is a different matter)
        if any("repeat" in r["type"] for r in survey if r["type"].startswith("begin")):
            return None
        dup = rng.choice(inner)["name"]
        survey.append({"type": "begin group", "name": "fg9", "label": "G"})
        survey.append({"type": "text", "name": rng.choice([dup, dup.upper(), dup.lower()]), "label": "dup"})
        survey.append({"type": "end group"})
        form.setdefault("settings", [{}])[0]["flat"] = "yes"
        return kind
    groups = [r for r in named if r["type"].startswith("begin")]
    if kind == "sibling_case":
        a = rng.choice(named)
        i = survey.index(a)
        depth = 0
        # a sibling right after `a` (skip over a whole block when `a` opens one)
        j = i + 1
        if a["type"].startswith("begin"):
            depth = 1
            while j < len(survey) and depth:
                depth += survey[j]["type"].startswith("begin") - survey[j]["type"].startswith("end")
                j += 1
        nm = a["name"].upper() if a["name"].upper() != a["name"] else a["name"].lower()
        if nm == a["name"]:
            nm = a["name"]
        survey.insert(j, {"type": "text", "name": nm, "label": "clash"})
        return kind
    if kind == "sibling_exact":
        qs = [r for r in named if not r["type"].startswith("begin")]
        if not qs:
            return None
        a = rng.choice(qs)
        old = a["name"]
        new = rng.choice([old, old.capitalize(), "Member_" + old, old.upper()])
        for rows in form.values():
            for row in rows:
                for k, v in list(row.items()):
                    if isinstance(v, str) and "${" + old + "}" in v:
                        row[k] = v.replace("${" + old + "}", "${" + new + "}")
        a["name"] = new
        survey.insert(survey.index(a) + 1, {"type": "text", "name": new, "label": "dup"})
        return kind
    if kind == "meta":
        survey.insert(0, {"type": "text", "name": "meta", "label": "m"})
        return kind
    if kind == "root_name" and groups:
        g = rng.choice(groups)
        old = g["name"]
        g["name"] = "data"
        return kind
    if kind == "section_twice" and len(groups) >= 2:
        g1, g2 = rng.sample(groups, 2)
        if survey.index(g1) > survey.index(g2):
            g1, g2 = g2, g1
        # only a clash when they are not siblings-with-same-name handled elsewhere; both are rejections anyway
        g2["name"] = g1["name"]
        return kind
    if kind == "generated_count":
        reps = [r for r in groups if "repeat" in r["type"] and r.get("repeat_count")]
        if reps:
            r = reps[0]
            survey.insert(survey.index(r), {"type": "text", "name": r["name"] + "_count", "label": "c"})
            return kind
    return None


def _check(args):
    seed, i, clash = args
    rng = rng_for(seed, PID, "oracle", "clash" if clash else "plain", i)
    prof = forms.Profile(adversarial=0.1, max_rows=rng.choice([4, 8, 14]), max_depth=4, p_group=0.22, p_repeat=0.2, p_or_other=0.1, p_trigger=0.3, p_dyn_default=0.6, p_default=0.3)
    form = forms.gen_form(rng, prof)
    if rng.random() < 0.3:
        form = forms.add_custom_columns(rng, form)
        form.pop("__info", None)
    if not clash and i % 4 == 1:
        rx = rng_for(seed, PID, "exotic", i)
        forms.add_exotics(rx, form, ["audit", "count_expr", "search", "osm", "empty_group", "legacy_hint", "calc_msgs", "entity_variants", "entity_variants", "hint_only_computed", "seeded_select", "loop", "loop", "shared_repeat_name", "table_list_repeat_plain"], p=0.35)
        if rx.random() < 0.5:
            form.setdefault("settings", [{}])[0]["flat"] = rx.choice(["yes", "true"])
    planted = plant_clash(rng, form) if clash else None
    if clash and not planted:
        return {"i": i, "skip": "no clash site"}
    st, r = xf.convert_form(forms.as_dict(form))
    if clash:
        if st == "ok":
            probs = audit(r.xform)
            if probs:
                return {"i": i, "form": form, "what": f"ambiguous names ({planted}) were converted instead of rejected: " + "; ".join(probs)[:500]}
            return {"i": i, "ok": True, "key": ("clash-harmless", planted), "n": 0}
        return {"i": i, "ok": True, "key": ("rejected", planted, i), "n": 1}
    if st != "ok":
        return {"i": i, "skip": st}
    probs = audit(r.xform)
    if probs:
        return {"i": i, "form": form, "what": "; ".join(probs)[:700], "xform": r.xform[:2500]}
    return {"i": i, "ok": True, "key": hash(r.xform), "n": r.xform.count("<bind")}


def _check_include(args):
    """a form assembled by the builder from sections (the `include` row type): the rows of the included section stand where the include row
    stood, and every path starts at the root of the form that is produced"""
    seed, i = args
    rng = rng_for(seed, PID, "include", i)
    from pyxform.builder import create_survey
    from pyxform.errors import PyXFormError
    from pyxform.xls2json import workbook_to_json
    from pyxform.xls2json_backends import get_xlsform
    prof = forms.Profile(adversarial=0.0, max_rows=rng.choice([3, 5, 8]), max_depth=3, p_group=0.25, p_repeat=0.2, p_or_other=0.0, p_select=0.0, p_trigger=0.0, p_dyn_default=0.4, p_default=0.2)
    main = forms.gen_form(rng, prof)
    sub_rows = [{"type": "text", "name": f"inc_a{i % 7}", "label": "A"}, {"type": "begin group", "name": "inc_g", "label": "G"},
                {"type": rng.choice(["integer", "date", "geopoint"]), "name": "inc_b", "label": "B", **({"default": "today()"} if rng.random() < 0.5 else {})},
                {"type": "end group"}][: rng.choice([1, 4])]
    sub = {"survey": sub_rows, "settings": [{"omit_instanceID": "yes"}]}
    pos = rng.randint(0, len(main["survey"]))
    depth = 0
    for r in main["survey"][:pos]:
        depth += r.get("type", "").startswith("begin") - r.get("type", "").startswith("end")
    main["survey"].insert(pos, {"type": "include", "name": "sub"})
    desc = {"main": main, "sub": sub, "include_row_at": pos, "case": i}
    try:
        sections = {nm: workbook_to_json(get_xlsform(forms.as_dict(f)), form_name=nm) for nm, f in (("main", main), ("sub", sub))}
        xform = create_survey(name_of_main_section="main", sections=sections).to_xml(validate=False)
    except PyXFormError as e:
        return {"i": i, "skip": "pyxerr:" + str(e)[:40]}
    except Exception as e:   # noqa: BLE001
        return {"i": i, "skip": "crash (C17): " + repr(e)[:60]}
    probs = audit(xform)
    if probs:
        return {"i": i, "form": desc, "what": "form assembled with an include row: " + "; ".join(probs)[:600], "xform": xform[:2500]}
    return {"i": i, "ok": True, "key": ("include", hash(xform)), "n": xform.count("<bind"), "include": True}


def oracle(seed, tier, searching=False):
    n = 500 if tier == "quick" else 8000
    nc = 200 if tier == "quick" else 2000
    if searching:
        n *= 3
    res = pmap(_check, [(seed, i, False) for i in range(n)] + [(seed, i, True) for i in range(nc)])
    res += pmap(_check_include, [(seed, i) for i in range(n // 5)])
    fails = [r for r in res if "what" in r]
    oks = [r for r in res if r.get("ok")]
    return {
        "evaluations": len(res), "distinct_nontrivial": len({r["key"] for r in oks if r["n"] > 0}),
        "rule": "generated XLSForms (nested groups/repeats, repeat_count, or_other, triggers, dynamic defaults, entities) converted by the real "
                "convert(); every bind nodeset, control ref, repeat nodeset/jr:count, setvalue/setgeopoint/recordaudio ref resolved against the "
                "primary instance with lxml; sibling, bind and control-ref uniqueness checked; a second stream plants catalogued name clashes "
                "(case-insensitive siblings, generated *_count, meta, duplicate section, section named like the root, two audit rows, same name in two groups "
                "under the flat setting) and demands rejection; a quarter of the plain stream adds rare features (audit, flat setting, repeat_count expressions, "
                "search() selects, osm, empty groups)",
        "accepted": sum(1 for r in oks if r["n"] > 0), "skipped": sum(1 for r in res if "skip" in r),
        "failures": [{"input": {"form": f["form"], "case": f["i"]}, "what": f["what"], "observed": f.get("xform"),
                      "reproduce": "cd /verif && /venv/bin/python harness/check.py C02 --replay <this file>"} for f in fails],
        "samples": [{"oracle_case": r["i"], "binds": r["n"]} for r in oks[:3]],
    }


def replay_finding(slug):
    return None


def replay(path: Path) -> int:
    payload = json.loads(Path(path).read_text())
    st, r = xf.convert_form(forms.as_dict(payload["input"]["form"]))
    if st == "ok":
        probs = audit(r.xform)
        print(probs)
        if probs:
            print(f"VIOLATION property={PID} replay={path}")
            return 1
    print(st)
    return 0
