"""C03 — ${name} references become XPaths that reach the named question's node."""

from __future__ import annotations

import itertools
import json
import re
from pathlib import Path

from common import cstr, cbool, rng_for
from opbase import Op, pmap
import forms
import treegen
import refs_oracle as ro
import xf

PID = "C03"
GUARD = ("question targets (the property speaks of `the question called name`); section targets are outside the statement except as "
         "indexed-repeat() arguments; names are slash-free")
MODELLED = ("is_parent_a_repeat, share_same_repeat_parent incl. _get_steps_and_target_xpath, has_common_repeat_parent, _relative_path and the "
            "absolute/relative/last-saved choice are modelled string-faithfully (coq/Model/Refs.v) and run against Survey.insert_xpaths; the "
            "theorem is about the component-list resolution (coq/Model/RefsClean.v), tied to the faithful model by evaluation inside Coq on "
            "every generated layout. The indexed-repeat()/instance() argument logic, BRACKETED_TAG substitution over whole cells and the "
            "coverage of every cell kind are decided on the implementation by the path-evaluation oracle")
ASSUMPTIONS = ["section names are unique in the form and referenced names are unique (both enforced by pyxform's validation)"]


def elems(tree):
    out = []

    def go(t, pre, depth):
        if depth:
            out.append((t[1], t[0], [*pre, t[1]]))
        kids = t[4] if t[0] == "G" else (t[3] if t[0] == "R" else [])
        for k in kids:
            go(k, [*pre, t[1]], depth + 1)
    go(tree, [], 0)
    return out


class VarReplOp(Op):
    """Survey.insert_xpaths('${t}', ctx, use_current, reference_parent) against Model/Refs.v on random layouts"""
    name = "D.var_repl"
    imports = ["PX.Model.Tree", "PX.Model.Refs"]
    fn = "fun p => let '(root, c, t, ls, uc, rp) := p in resolve_in_tree root c t ls uc rp"
    in_ty = "(elem * list N * list N * bool * bool * bool)"
    n_quick, n_thorough = 500, 8000

    def generate(self, rng, n):
        from pyxform.builder import create_survey_element_from_dict
        cases = []
        while len(cases) < n:
            tree = treegen.gen_tree(rng, unique=True, max_depth=rng.choice([2, 3, 4, 5]), max_kids=3)
            if rng.random() < 0.5:
                tree = prefixy(rng, tree)
            if rng.random() < 0.15:
                tree = crafted_alignment(rng)
            es = [e for e in elems(tree) if e[2][1] != "meta"]
            names = [e[0] for e in es]
            if len(es) < 2 or len(set(names)) != len(names):
                continue
            sv = create_survey_element_from_dict(treegen.to_json(tree))
            sv._setup_xpath_dictionary()
            for _ in range(4):
                c = rng.choice(es)
                t = rng.choice([e for e in es if e[0] != c[0]])
                if t[1] != "Q" and rng.random() < 0.7:
                    continue
                ls, uc, rp = rng.random() < 0.1, rng.random() < 0.2, rng.random() < 0.2
                ctx_el = sv._xpath[c[0]]
                text = "${last-saved#%s}" % t[0] if ls else "${%s}" % t[0]
                try:
                    got = sv.insert_xpaths(text, ctx_el, uc, rp)
                except Exception as e:
                    got = "EXC:" + type(e).__name__
                cases.append({"coq": f"({treegen.to_coq(tree)}, {cstr(c[0])}, {cstr(t[0])}, {cbool(ls)}, {cbool(uc)}, {cbool(rp)})",
                              "expected": got, "desc": {"tree": tree, "context": c[0], "target": t[0], "last_saved": ls, "use_current": uc, "reference_parent": rp},
                              "class": ("last-saved" if ls else ("relative" if ".." in got else "absolute")) + ("/section-target" if t[1] != "Q" else "")})
        return cases[:n]


def crafted_alignment(rng):
    """repeats o > a > b holding the referrer, and beside a, in o, a section whose name ends with a's name exactly where the text of the
    target's xpath would be cut by len(xpath of b): the layout of finding F30 (fixed), with random names and optional extra depth"""
    a = rng.choice(["a", "ab", "s1", "rep"])
    b = rng.choice(["b", "u", "in", "xyz"])
    g = "z" * (len(a) + len(b) + 2) + a
    tgt = rng.choice(["q", "t2", b + "x", "zz"])
    inner = [("Q", "c_ref", True, False), ("Q", "c_vis", True, True)]
    if rng.random() < 0.4:
        inner = [("G", "gi", False, False, inner)]
    target_sec = ("G", g, False, False, [("Q", tgt, True, True)]) if rng.random() < 0.7 else ("R", g, False, [("Q", tgt, True, True)])
    kids = [target_sec, ("R", a, False, [("R", b, False, inner)])]
    if rng.random() < 0.5:
        kids.reverse()
    return ("G", "data", False, False, [("Q", "top", True, True), ("R", "o", False, kids)])


def crafted_indexed(rng):
    """1..3 nested repeats (groups in between at random) holding the target; index questions and referrers at every level"""
    k = rng.choice([1, 2, 3, 3])
    names = ["family", "person", "pet"][:k] if rng.random() < 0.5 else ["r", "r1", "r11"][:k]
    inner = [("Q", "tgt", True, True), ("Q", "c_in", True, False)]
    for lvl in range(k - 1, -1, -1):
        kids = [("Q", f"i{lvl}", True, True), *inner, ("Q", f"c{lvl}", True, False)]
        if rng.random() < 0.3:
            kids = [("G", f"gg{lvl}", False, False, kids)]
        inner = [("R", names[lvl], False, kids)]
    return ("G", "data", False, False, [("Q", "top", True, True), *inner, ("Q", "c_out", True, False)])


def prefixy(rng, tree):
    """rename sections so that sibling names are string prefixes of one another (r, r1, r11; g, g_)"""
    names = iter(["r", "r1", "r11", "r2", "g", "g1", "g_", "r_1", "rr", "gg"])
    used = set()

    def go(t):
        if t[0] == "Q":
            return t
        nm = t[1]
        if nm not in ("data", "meta") and rng.random() < 0.8:
            nm = next(names, nm)
        if t[0] == "G":
            return ("G", nm, t[2], t[3], [go(k) for k in t[4]])
        return ("R", nm, t[2], [go(k) for k in t[3]])
    return go(tree)


class CleanOp(Op):
    """the component-list resolution (subject of the theorem) equals the string-faithful model, evaluated in Coq; the expected value is
    the implementation's result, so all three agree"""
    name = "D.var_repl_clean"
    imports = ["PX.Model.Tree", "PX.Model.Refs", "PX.Model.RefsClean"]
    fn = "fun p => let '(root, c, t) := p in clean_resolve_text root c t"
    in_ty = "(elem * list N * list N)"
    n_quick, n_thorough = 400, 6000

    def generate(self, rng, n):
        from pyxform.builder import create_survey_element_from_dict
        cases = []
        while len(cases) < n:
            tree = treegen.gen_tree(rng, unique=True, max_depth=rng.choice([2, 3, 4, 5]), max_kids=3)
            if rng.random() < 0.5:
                tree = prefixy(rng, tree)
            if rng.random() < 0.15:
                tree = crafted_alignment(rng)
            es = [e for e in elems(tree) if e[2][1] != "meta"]
            names = [e[0] for e in es]
            qs = [e for e in es if e[1] == "Q"]
            if len(es) < 2 or len(set(names)) != len(names) or not qs:
                continue
            sv = create_survey_element_from_dict(treegen.to_json(tree))
            sv._setup_xpath_dictionary()
            for _ in range(4):
                c = rng.choice(es)
                cand = [e for e in qs if e[0] != c[0]]
                if not cand:
                    break
                t = rng.choice(cand)
                got = sv.insert_xpaths("${%s}" % t[0], sv._xpath[c[0]])
                cases.append({"coq": f"({treegen.to_coq(tree)}, {cstr(c[0])}, {cstr(t[0])})", "expected": got,
                              "desc": {"tree": tree, "context": c[0], "target": t[0]}, "class": "relative" if ".." in got else "absolute"})
        return cases[:n]


class ArgsOp(Op):
    """survey.split_function_args (the argument splitter of indexed-repeat()) against Model/Args.v"""
    name = "R.split_function_args"
    imports = ["PX.Model.Args"]
    fn = "fun s => join [1%N] (split_function_args s)"
    in_ty = "list N"
    n_quick, n_thorough = 500, 5000

    def generate(self, rng, n):
        from pyxform.survey import split_function_args
        atoms = ["a", ",", "(", ")", " ", "${x}", "position(..)", "if(a, b, c)", "1", "((", "))", ")(", ",,", "f(g(h, i), j)", ", ", "${r}", "é", "'a,b'", "", "2"]
        cases = []
        for _ in range(n):
            s = "".join(rng.choice(atoms) for _ in range(rng.randint(0, 8)))
            parts = split_function_args(s)
            cases.append({"coq": cstr(s), "expected": "\x01".join(parts), "desc": {"args": s}, "class": f"{min(len(parts), 5)} parts" + ("/parens" if "(" in s or ")" in s else ""),
                          "nontrivial": len(parts) > 1 and "(" in s})
        return cases


class FindCallsOp(Op):
    """survey.find_indexed_repeat_calls against Model/FindCalls.v: keyword occurrences, parentheses nested to any depth, unclosed calls"""
    name = "S.find_calls"
    imports = ["PX.Model.FindCalls"]
    fn = "fun s => flat_map (fun c => dec (N.of_nat (fst c)) ++ [45%N] ++ dec (N.of_nat (snd c)) ++ [59%N]) (find_calls s)"
    in_ty = "list N"
    n_quick, n_thorough = 300, 3000

    def generate(self, rng, n):
        from pyxform.survey import find_indexed_repeat_calls
        atoms = ["indexed-repeat(", "indexed-repeat", "(", ")", "(", ")", ",", " ", "${a}", "if(", "max(min(1, 2), 3)", "position(..)", "1", "x", "-repeat(", "indexed", "é"]
        cases = []
        for _ in range(n):
            t = "".join(rng.choice(atoms) for _ in range(rng.randint(0, 14)))
            exp = "".join(f"{a}-{b};" for a, b in find_indexed_repeat_calls(t))
            cases.append({"coq": cstr(t), "expected": exp, "desc": {"text": t}, "class": f"calls={exp.count(';')}", "nontrivial": exp != ""})
        return cases


def ops(tier):
    return [VarReplOp(), CleanOp(), ArgsOp(), FindCallsOp()]


# ---- direct oracle: evaluate every substituted path on real convert() output -------------------------------
CELLS = ["relevant", "constraint", "calculation", "required", "label", "hint", "default", "choice_filter", "repeat_count", "read_only", "seed"]


def layouts(rng, n):
    """tree layouts biased to the fragile shapes: nested repeats, sibling repeats under a repeat, prefix-named siblings, deep asymmetric nesting"""
    out = []
    while len(out) < n:
        t = treegen.gen_tree(rng, unique=True, max_depth=rng.choice([2, 3, 4, 5, 6]), max_kids=rng.choice([2, 3]))
        if rng.random() < 0.5:
            t = prefixy(rng, t)
        if rng.random() < 0.1:
            t = crafted_alignment(rng)
        es = [e for e in elems(t) if e[2][1] != "meta"]
        if len({e[0] for e in es}) == len(es) and sum(1 for e in es if e[1] == "Q") >= 2:
            out.append(t)
    return out


def _check_several_indexed(seed, i):
    """several indexed-repeat() calls in one expression: the references in the index positions of EVERY call, between the calls and after
    the last one denote nodes of the current repeat instance (relative), the first two arguments of every call stay absolute"""
    rng = rng_for(seed, PID, "several-indexed", i)
    n = rng.choice([2, 2, 3])
    depth2 = rng.random() < 0.4
    calls = []
    for _ in range(n):
        idxarg = rng.choice(["${idx}", "1", "position(..)", "${idx} + 1", "${idx} + ${idx}", "if(${idx} > 0, max(min(1, 2), 3), 1)", "min(max(if(1, (${idx}), 2), 3), 4)"])
        calls.append(f"indexed-repeat(${{a}}, ${{r}}, {idxarg})")
    same_name = rng.random() < 0.35
    if same_name:
        # the value argument and the index argument mention the SAME question: the first stays absolute, the index one is relative
        calls[rng.randrange(len(calls))] = "indexed-repeat(${idx}, ${r}, ${idx})"
    glue = rng.choice([" + ", ", "])
    pieces = []
    for k, c in enumerate(calls):
        if rng.random() < 0.5:
            pieces.append("${idx}")
        pieces.append(c)
    if rng.random() < 0.7:
        pieces.append("${idx}")
    expr = glue.join(pieces)
    if glue == ", ":
        expr = f"concat({expr})"
    survey = [{"type": "begin repeat", "name": "r", "label": "R"}, {"type": "text", "name": "a", "label": "A"}, {"type": "integer", "name": "idx", "label": "I"},
              {"type": "calculate", "name": "c", "calculation": expr}, {"type": "end repeat"}]
    if depth2:
        survey = [{"type": "begin group", "name": "g", "label": "G"}, *survey, {"type": "end group"}]
    form = {"survey": survey}
    st, r = xf.convert_form(forms.as_dict(form))
    if st != "ok":
        return {"i": i, "skip": "rejected: " + str(r)[:80]} if st == "pyxerr" else {"i": i, "skip": "crash (C17)"}
    root = xf.lparse(r.xform)
    base = "/data/g/r" if depth2 else "/data/r"
    val = ro.find_attr(root, base + "/c", "calculation")
    if val is None:
        return {"i": i, "skip": "cell calculation not located"}
    if "${" in val:
        return {"i": i, "form": form, "what": f"a ${{...}} token survives: {val!r}"}
    n_idx = expr.count("${idx}") - (1 if same_name else 0)
    if same_name and val.count(f" {base}/idx ,") != 1:
        return {"i": i, "form": form, "what": f"indexed-repeat(${{idx}}, ${{r}}, ${{idx}}): the first argument must be the absolute path {base}/idx; got {val!r}"}
    if val.count("../idx") != n_idx or ((base + "/idx") in val and not same_name):
        return {"i": i, "form": form, "what": f"calculation with {n} indexed-repeat() calls: {n_idx} reference(s) to ${{idx}} must be relative (../idx); got {val!r}"}
    if val.count(f" {base}/a ") != n - (1 if same_name else 0) or val.count(f" {base} ,") + val.count(f" {base} )") + val.count(f" {base}  ,") < n:
        return {"i": i, "form": form, "what": f"calculation with {n} indexed-repeat() calls: the first two arguments of every call must be absolute; got {val!r}"}
    return {"i": i, "ok": True, "key": ("calculation", "several-indexed", n, n_idx), "rel": True}


def _check_nested_predicate(seed, i):
    """references inside predicates of secondary-instance paths, one predicate nested in another: every reference inside ANY bracket is
    anchored with current(), every reference outside all brackets is a plain relative path"""
    rng = rng_for(seed, PID, "nested-predicate", i)
    names = ["q", "p"]
    def ref():
        return "${%s}" % rng.choice(names)
    # the instance id in single quotes, in double quotes, or with white space inside the parentheses: the same XPath
    call = rng.choice(["instance('l9')", "instance('l9')", 'instance("l9")', "instance( 'l9' )", 'instance( "l9")'])
    inner = f"{call}/root/item[name = {ref()}]/label"
    shape = rng.choice(["nested", "nested", "two", "plain"])
    n_in = 1
    if shape == "nested":
        tail = rng.random() < 0.7
        expr = f"{call}/root/item[x = {inner}" + (f" and name = {ref()}" if tail else "") + "]/label"
        n_in += 1 if tail else 0
    elif shape == "two":
        expr = f"{inner} + {call}/root/item[x = {ref()}]/label"
        n_in += 1
    else:
        expr = inner
    n_out = 0
    if rng.random() < 0.6:
        expr = f"{ref()} + " + expr
        n_out += 1
    if rng.random() < 0.6:
        expr = expr + f" + {ref()}"
        n_out += 1
    form = {"survey": [{"type": "begin repeat", "name": "r", "label": "R"}, {"type": "text", "name": "q", "label": "Q"}, {"type": "text", "name": "p", "label": "P"},
                       {"type": "select_one l9", "name": "s", "label": "S"}, {"type": "calculate", "name": "c", "calculation": expr}, {"type": "end repeat"}],
            "choices": [{"list_name": "l9", "name": "a", "label": "A", "x": "1"}]}
    st, r = xf.convert_form(forms.as_dict(form))
    if st != "ok":
        return {"i": i, "skip": "rejected: " + str(r)[:80]} if st == "pyxerr" else {"i": i, "skip": "crash (C17)"}
    val = ro.find_attr(xf.lparse(r.xform), "/data/r/c", "calculation")
    if val is None:
        return {"i": i, "skip": "cell calculation not located"}
    if "${" in val:
        return {"i": i, "form": form, "what": f"a ${{...}} token survives: {val!r}"}
    got_in = len(re.findall(r"current\(\)/\.\./[qp] ", val))
    got_all = len(re.findall(r"\.\./[qp] ", val))
    if got_in != n_in or got_all - got_in != n_out or "/data/r/q" in val or "/data/r/p" in val:
        return {"i": i, "form": form, "what": f"{n_in} reference(s) inside predicates must be anchored with current() and {n_out} outside must not; got {val!r}"}
    return {"i": i, "ok": True, "key": ("calculation", "nested-predicate", shape, n_in, n_out), "rel": True}


def _check_repeat_itemset(seed, i):
    """a select whose choices are the instances of a repeat (select_one ${name}), with a choice filter: the repeat's own path becomes the context
    node, a question inside the repeat is reached from it, and a question OUTSIDE the repeat keeps its absolute path - also when its name
    merely starts like the repeat's (rep and rep_min: defect F101)"""
    rng = rng_for(seed, PID, "repeat-itemset", i)
    rep = rng.choice(["person", "p", "hh"])
    outside = rng.choice([rep + "_min_age", rep + "2", rep + "-x", rep + ".limit", "limit", "x" + rep])
    inner = rng.choice(["age", rep + "_age"])
    flt, want = rng.choice([
        ("${%s} > ${%s}" % (inner, outside), "./%s>/data/%s" % (inner, outside)),
        ("%s > ${%s}" % (inner, outside), "%s>/data/%s" % (inner, outside)),
        ("${%s} > 3 and ${%s} = ${%s}" % (inner, outside, outside), "./%s>3and/data/%s=/data/%s" % (inner, outside, outside)),
    ])
    form = {"survey": [{"type": "integer", "name": outside, "label": "M"}, {"type": "begin repeat", "name": rep, "label": "R"}, {"type": "text", "name": "pname", "label": "N"},
                       {"type": "integer", "name": inner, "label": "A"}, {"type": "end repeat"},
                       {"type": "select_one ${pname}", "name": "pick", "label": "Pick", "choice_filter": flt}]}
    st, r = xf.convert_form(forms.as_dict(form))
    if st != "ok":
        return {"i": i, "skip": "rejected: " + str(r)[:80]} if st == "pyxerr" else {"i": i, "skip": "crash (C17)"}
    root = xf.lparse(r.xform)
    its = [e.get("nodeset") for e in root.iter(xf.XF + "itemset")]
    if len(its) != 1:
        return {"i": i, "form": form, "what": f"{len(its)} itemsets for one select"}
    got = "".join(its[0].split())
    exp = f"/data/{rep}[{want}]"
    if got != exp:
        return {"i": i, "form": form, "what": f"choice filter {flt!r} over the repeat {rep}: the itemset reads {its[0]!r}, expected {exp!r} (white space aside)"}
    return {"i": i, "ok": True, "key": ("choice_filter", "repeat-itemset", rep, outside, flt), "rel": True}


def _check(args):
    seed, i = args
    if i % 12 == 3:
        return _check_repeat_itemset(seed, i)
    if i % 12 == 7:
        return _check_several_indexed(seed, i)
    if i % 12 == 9:
        return _check_nested_predicate(seed, i)
    rng = rng_for(seed, PID, "oracle", i)
    tree = layouts(rng, 1)[0]
    force_indexed = i % 12 == 5
    if force_indexed:
        rng = rng_for(seed, PID, "oracle-indexed", i)
        tree = crafted_indexed(rng)
    idx = ro.index_tree(tree)
    es = [e for e in elems(tree) if e[2][1] != "meta"]
    qs = [e for e in es if e[1] == "Q"]
    reps = [e for e in es if e[1] == "R"]
    ctx = rng.choice(qs)
    cell = rng.choice(CELLS)
    if cell == "repeat_count":
        if not reps:
            cell = "relevant"
        else:
            ctx = rng.choice(reps)
    tgts = [q for q in qs if q[0] != ctx[0] and not (cell == "repeat_count" and q[2][:len(ctx[2])] == ctx[2])]
    if not tgts:
        return {"i": i, "skip": "no target"}
    tgt = rng.choice(tgts)
    tgt2 = rng.choice(tgts)
    mode = rng.choice(["plain", "plain", "two", "last_saved", "indexed"])
    if force_indexed:
        calcs = [q for q in qs if q[0].startswith("c")]
        ctx = rng.choice(calcs)
        tgt = next(q for q in qs if q[0] == "tgt")
        tgts = [q for q in qs if q[0] != ctx[0]]
        cell, mode = "calculation", "indexed"
    if cell != "calculation" and mode == "indexed":
        mode = "plain"
    if cell in ("choice_filter", "repeat_count", "seed") and mode != "plain":
        mode = "plain"

    def ref_text():
        if mode == "last_saved":
            return "${last-saved#%s}" % tgt[0]
        return "${%s}" % tgt[0]
    expr = {"plain": f"{ref_text()} != 1", "two": f"{ref_text()} != 1 and ${{{tgt2[0]}}} != 2", "last_saved": f"{ref_text()} != 1"}.get(mode)
    ctx_is_select = cell in ("choice_filter", "seed")
    external = cell == "choice_filter" and rng.random() < 0.5
    indexed_args = None
    if mode == "indexed":
        chain = [rp[-1] for rp in idx[tgt[0]][0][1]][:3]            # names of the repeats around the target, outermost first
        if not chain:
            chain = [reps[0][0] if reps else tgt[0]]
        indexed_args = [("abs", tgt[0])]
        idx_qs = [q for q in qs if q[0] not in (ctx[0], tgt[0])]
        for rn in chain:
            indexed_args.append(("abs", rn))
            if idx_qs and rng.random() < 0.5:
                indexed_args.append(("ref", rng.choice(idx_qs)[0]))
            else:
                indexed_args.append(("lit", rng.choice(["1", "2", "position(..)"])))
        sep = rng.choice([", ", ",", " , "])
        indexed_expr = "indexed-repeat(" + sep.join(a[1] if a[0] == "lit" else "${%s}" % a[1] for a in indexed_args) + ")"
    default_op = rng.choice(["+", "-", "-"])
    default_type = rng.choice(["text", "date", "dateTime", "integer", "geopoint", "decimal"])

    def cells_for(name, kind):
        if name != ctx[0]:
            return {}
        if cell == "label":
            return {"label": f"x {ref_text()} y"}
        if cell == "hint":
            return {"hint": f"h {ref_text()}"}
        if cell == "default":
            return {"default": f"{ref_text()} {default_op} 1"}
        if cell == "calculation":
            return {"calculation": f"{ref_text()} + 1" if mode != "indexed" else indexed_expr}
        if cell == "repeat_count":
            return {"repeat_count": ref_text()}
        if cell == "choice_filter":
            return {"choice_filter": f"cf = {ref_text()}"}
        if cell == "seed":
            return {"parameters": f"randomize=true, seed={ref_text()}"}
        return {cell: expr or f"{ref_text()} != 1"}
    rows = ro.tree_rows(tree, cells_for)
    form = {"survey": rows}
    if ctx_is_select:
        for r in rows:
            if r.get("name") == ctx[0]:
                r["type"] = "select_one_external l9" if external else "select_one l9"
                r.setdefault("label", "S")
        form["choices"] = [{"list_name": "l9", "name": "a", "label": "A", "cf": "x"}]
        if external:
            form["external_choices"] = [{"list_name": "l9", "name": "a", "cf": "x"}]
    if cell == "calculation":
        for r in rows:
            if r.get("name") == ctx[0]:
                r["type"] = "calculate"
                r.pop("label", None)
    if cell == "default":
        for r in rows:
            if r.get("name") == ctx[0] and r.get("type") == "text":
                r["type"] = default_type
    if reps and mode != "indexed" and i % 3 == 0:
        # an unrelated question elsewhere that bears the name of one of the repeats (legal: nothing refers to either by name); the
        # references between the questions of that repeat are not affected by it
        rx = rng_for(seed, PID, "decoy", i)
        rows += [{"type": "begin group", "name": "decoy_grp", "label": "D"}, {"type": "text", "name": rx.choice(reps)[0], "label": "Same name as a repeat"}, {"type": "end group"}]
    st, r = xf.convert_form(forms.as_dict(form))
    if st != "ok":
        if st == "crash":
            return {"i": i, "skip": "crash (C17)"}
        return {"i": i, "skip": "rejected: " + str(r)[:80]}
    if "${" in r.xform:
        return {"i": i, "form": form, "what": "a ${...} token survives in the output"}
    root = xf.lparse(r.xform)
    cinfo, tinfo = idx[ctx[0]][0], idx[tgt[0]][0]
    val = ro.find_attr(root, "/" + "/".join(cinfo[0]), "query" if external else cell)
    if val is None:
        return {"i": i, "skip": f"cell {cell} not located"}
    if mode == "indexed":
        m = re.search(r"indexed-repeat\((.*)\)", val)
        got = [a.strip() for a in m.group(1).split(",")] if m else []
        if len(got) != len(indexed_args):
            return {"i": i, "form": form, "what": f"indexed-repeat() has {len(got)} arguments instead of {len(indexed_args)}: {val!r}"}
        for pos, ((akind, aname), g) in enumerate(zip(indexed_args, got)):
            if akind == "abs":
                want = "/" + "/".join(idx[aname][0][0])
                if g != want:
                    return {"i": i, "form": form, "what": f"indexed-repeat() argument {pos} (${{{aname}}}) is {g!r}, not the absolute path {want}: {val!r}"}
            elif akind == "ref":
                ev = ro.evaluate(" " + g + " ", cinfo[0])
                if ev is None or ev["path"] != idx[aname][0][0]:
                    return {"i": i, "form": form, "what": f"indexed-repeat() index argument {pos} (${{{aname}}}) became {g!r}, which does not denote /{'/'.join(idx[aname][0][0])}: {val!r}"}
            elif g != aname:
                return {"i": i, "form": form, "what": f"indexed-repeat() literal argument {pos} changed: {g!r} vs {aname!r}"}
        return {"i": i, "ok": True, "key": (cell, mode, len(indexed_args)), "rel": False}
    ev = ro.evaluate(val, cinfo[0])
    if ev is None:
        return {"i": i, "form": form, "what": f"no path found in the {cell} of {ctx[0]}: {val!r}"}
    if ev["path"] != tinfo[0]:
        return {"i": i, "form": form, "what": f"{cell} of {ctx[0]}: ${{{tgt[0]}}} became {ev['text']!r}, which denotes /{'/'.join(ev['path'] or ['?'])} not /{'/'.join(tinfo[0])}"}
    if mode == "last_saved":
        if not (ev["last_saved"] and ev["abs"]):
            return {"i": i, "form": form, "what": f"last-saved reference did not resolve inside instance('__last-saved'): {val!r}"}
        return {"i": i, "ok": True, "key": (cell, mode, "abs"), "rel": False}
    need_rel = ro.must_be_relative(cinfo, tinfo)
    if need_rel and ev["abs"] and cell != "repeat_count":
        return {"i": i, "form": form, "what": f"{cell} of {ctx[0]}: ${{{tgt[0]}}} is absolute ({ev['text']!r}) although the target's innermost repeat encloses the referrer"}
    if cell == "choice_filter" and not ev["abs"] and not ev["current"]:
        return {"i": i, "form": form, "what": f"relative path in a secondary-instance predicate is not anchored with current(): {val!r}"}
    return {"i": i, "ok": True, "key": (cell, mode, "rel" if not ev["abs"] else "abs", tuple(cinfo[0][:-1]) == tuple(tinfo[0][:-1])), "rel": not ev["abs"]}


def error_cases():
    """unknown, ambiguous (2, 3 and 5 occurrences) and malformed references must fail with an error naming the reference"""
    from pyxform.errors import PyXFormError
    fails, n = [], 0

    def grp(i, inner):
        return [{"type": "begin group", "name": f"g{i}", "label": "G"}, *inner, {"type": "end group"}]
    for k in (2, 3, 4, 5):
        rows = []
        for i in range(k):
            rows += grp(i, [{"type": "text", "name": "dup", "label": "D"}])
        for cell in ("relevant", "calculation", "label"):
            q = {"type": "calculate" if cell == "calculation" else "text", "name": "c", cell: "${dup}" + (" != 1" if cell == "relevant" else "")}
            if cell != "calculation":
                q.setdefault("label", "C")
            n += 1
            st, r = xf.convert_form(forms.as_dict({"survey": [*rows, q]}))
            if st == "ok":
                fails.append({"what": f"a reference to a name used by {k} elements was resolved instead of rejected ({cell})", "input": {"form": {"survey": [*rows, q]}}})
            elif st == "pyxerr" and "dup" not in str(r):
                fails.append({"what": f"the error for an ambiguous reference does not name it: {str(r)[:120]}", "input": {"form": {"survey": [*rows, q]}}})
    for cell in ("relevant", "constraint", "calculation", "required", "label", "hint", "default", "choice_filter", "repeat_count", "trigger"):
        q = {"type": "text", "name": "c", "label": "C"}
        rows = [{"type": "text", "name": "a", "label": "A"}]
        if cell == "repeat_count":
            rows += [{"type": "begin repeat", "name": "r", "label": "R", "repeat_count": "${nope}"}, q, {"type": "end repeat"}]
        elif cell == "choice_filter":
            q = {"type": "select_one l", "name": "c", "label": "C", "choice_filter": "cf = ${nope}"}
            rows.append(q)
        elif cell == "calculation":
            rows.append({"type": "calculate", "name": "c", "calculation": "${nope} + 1"})
        else:
            q[cell] = "${nope}" if cell == "trigger" else "x ${nope} y"
            rows.append(q)
        form = {"survey": rows, "choices": [{"list_name": "l", "name": "x", "label": "X", "cf": "1"}]}
        n += 1
        st, r = xf.convert_form(forms.as_dict(form))
        if st == "ok":
            fails.append({"what": f"a reference to a name that does not exist was accepted ({cell})", "input": {"form": form}})
        elif st == "pyxerr" and "nope" not in str(r):
            fails.append({"what": f"the error for an unknown reference does not name it ({cell}): {str(r)[:120]}", "input": {"form": form}})
        elif st == "crash":
            fails.append({"what": f"an unknown reference in {cell} raised {r!r} instead of the library's error", "input": {"form": form}})
    return fails, n


def oracle(seed, tier, searching=False):
    n = 1200 if tier == "quick" else 20000
    if searching:
        n *= 3
    res = pmap(_check, [(seed, i) for i in range(n)])
    fails = [{"input": {"form": r["form"], "case": r["i"]}, "what": r["what"]} for r in res if "what" in r]
    ef, en = error_cases()
    fails += ef
    oks = [r for r in res if r.get("ok")]
    skips = {}
    for r in res:
        if "skip" in r:
            k = r["skip"][:40]
            skips[k] = skips.get(k, 0) + 1
    return {
        "evaluations": len(res) + en, "distinct_nontrivial": len({r["key"] for r in oks if r["rel"]}),
        "rule": "generated layouts (nested and sibling repeats, prefix-named siblings, asymmetric depth up to 6) x referrer/target pairs x cell kind "
                "(relevant, constraint, calculation, required, read_only, label, hint, default, choice_filter, repeat_count) x {plain, two references, "
                "last-saved, indexed-repeat}; the substituted path is located in the real XForm and evaluated from the referrer's node by an independent "
                "resolver; must denote the target, be relative when required, be anchored with current() in predicates, leave no ${ token; unknown and "
                "ambiguous names (2..5 occurrences) must be rejected by name; non-trivial = relative result, distinct by (cell, mode, kind, same-parent)",
        "accepted": len(oks), "relative_results": sum(1 for r in oks if r["rel"]), "skipped": skips,
        "failures": [dict(f, reproduce="cd /verif && /venv/bin/python harness/check.py C03") for f in fails[:8]],
        "samples": [{"case": r["i"], "key": list(map(str, r["key"]))} for r in oks[:4]],
    }


def replay_finding(slug):
    return None


def replay(path):
    payload = json.loads(Path(path).read_text())
    st, r = xf.convert_form(forms.as_dict(payload["input"]["form"]))
    print(st, payload.get("what"))
    return 1
