"""C04 — survey rows map one-to-one, in order and nesting, onto instance and body."""

from __future__ import annotations

import json
import re
from pathlib import Path

from common import cstr, clist, rng_for
from opbase import Op, pmap
import forms
import xf
from props import c02

PID = "C04"
GUARD = "`begin loop` (loop over a list) is outside the model; table-list helper rows are covered by the oracle only"
MODELLED = ("the begin/end stack of workbook_to_json (coq/Model/Rows.v) and the instance/template construction (coq/Model/Tree.v); the "
            "question type table is regenerated into coq/Gen/Types.v. Per-type appearance/parameter attributes and the body tree are decided on "
            "the implementation by an independent sheet-to-tree reader (oracle)")
ASSUMPTIONS = ["row classification (question / begin / end / skipped) is done by RE_BEGIN_CONTROL / RE_END_CONTROL, whose patterns are pinned"]

KIND = {"group": "KGroup", "repeat": "KRepeat", "loop": "KLoop"}


def rand_rows(rng):
    """row kinds only: ('q', name) | ('b', kind, name) | ('e', kind) | ('s',) — balanced or deliberately broken"""
    rows, open_ = [], []
    n = [0]

    def nm(p):
        n[0] += 1
        return f"{p}{n[0]}"
    for _ in range(rng.randint(1, 12)):
        r = rng.random()
        if r < 0.35:
            rows.append(("q", nm("q")))
        elif r < 0.5:
            rows.append(("s",))
        elif r < 0.72 and len(open_) < 5:
            k = rng.choice(["group", "repeat"])
            rows.append(("b", k, nm(k[0])))
            open_.append(k)
        elif open_:
            rows.append(("e", open_.pop()))
        else:
            rows.append(("q", nm("q")))
    brk = rng.random()
    if brk < 0.55:
        while open_:
            rows.append(("e", open_.pop()))
    elif brk < 0.7 and open_:
        k = open_.pop()
        rows.append(("e", "group" if k == "repeat" else "repeat"))      # wrong type
    elif brk < 0.85:
        while open_:
            rows.append(("e", open_.pop()))
        rows.insert(rng.randint(0, len(rows)), ("e", rng.choice(["group", "repeat"])))    # stray end
    # else: leave something open
    if not any(r[0] != "s" for r in rows):
        rows.append(("q", nm("q")))
    return rows


def to_sheet(rows, rng):
    out = []
    for r in rows:
        if r[0] == "q":
            out.append({"type": "text", "name": r[1], "label": "L"})
        elif r[0] == "b":
            out.append({"type": rng.choice([f"begin {r[1]}", f"begin_{r[1]}"]), "name": r[2], "label": "S"})
        elif r[0] == "e":
            out.append({"type": rng.choice([f"end {r[1]}", f"end_{r[1]}"])})
        else:
            out.append(rng.choice([{}, {"type": "text", "name": "zz_dis", "label": "x", "disabled": "yes"}, {"relevant": "1"}]))
    return out


def rows_coq(rows):
    items = []
    for r in rows:
        if r[0] == "q":
            items.append(f"RowQ {cstr(r[1])}")
        elif r[0] == "b":
            items.append(f"RowBegin {KIND[r[1]]} {cstr(r[2])}")
        elif r[0] == "e":
            items.append(f"RowEnd {KIND[r[1]]}")
        else:
            items.append("RowSkip")
    return clist(items, "row")


def shape(children):
    out = []
    for c in children:
        if c.get("name") == "meta" and c.get("type") == "group":
            continue
        if c.get("type") in ("group", "repeat", "loop"):
            out.append(f"{c['type'][0].upper()}{c['name']}[{shape(c.get('children', []))}]")
        else:
            out.append("Q" + c["name"])
    return ",".join(out)


class RowsOp(Op):
    """workbook_to_json's begin/end handling against Model/Rows.v on balanced and broken row sequences"""
    name = "B.rows"
    imports = ["PX.Spec.Nest", "PX.Model.Rows"]
    fn = "fun rows => show_result (parse_rows rows)"
    in_ty = "list row"
    n_quick, n_thorough = 400, 5000

    def generate(self, rng, n):
        from pyxform.xls2json import workbook_to_json
        from pyxform.xls2json_backends import DefinitionData
        from pyxform.errors import PyXFormError
        cases = []
        for i in range(n):
            rows = rand_rows(rng)
            sheet = to_sheet(rows, rng)
            hdr = [{h: None for h in forms.headers_of(sheet)}]
            try:
                j = workbook_to_json(DefinitionData(survey=[dict(r) for r in sheet], survey_header=hdr, sheet_names=["survey"]), warnings=[])
                exp = shape(j["children"])
            except PyXFormError as e:
                m = re.match(r"^\[row : (\d+)\] Unmatched end statement", str(e))
                m2 = re.match(r"^Unmatched begin statement: \w+ \((.*)\)$", str(e))
                exp = f"!E{m.group(1)}" if m else (f"!B{m2.group(1)}" if m2 else "!?" + str(e)[:60])
            cases.append({"coq": rows_coq(rows), "expected": exp, "desc": {"rows": rows}, "class": "error" if exp.startswith("!") else "tree"})
        return cases


class EndToEndOp(Op):
    """rows -> parsed rows -> element tree -> primary instance (Proofs/Convert.v) against the primary instance of real convert()"""
    name = "E2E.instance"
    imports = ["PX.Spec.Nest", "PX.Model.Rows", "PX.Model.Tree", "PX.Spec.Shape", "PX.Proofs.Convert"]
    fn = ("fun rows => match parse_rows rows with POk ts => (fix show (s : sh) : list N := match s with Sh t a k => "
          "t ++ (match a with [] => [] | _ => [42%N] end) ++ [40%N] ++ flat_map (fun c => show c ++ [44%N]) k ++ [41%N] end) "
          "(ishape (inst false (survey_tree [100;97;116;97]%N ts))) | PErr _ => [33%N] end")
    in_ty = "list row"
    n_quick, n_thorough = 200, 2000

    def generate(self, rng, n):
        import xf
        cases = []
        tries = 0
        while len(cases) < n and tries < 6 * n:
            tries += 1
            rows = rand_rows(rng)
            sheet = to_sheet(rows, rng)
            st, r = xf.convert_form(forms.as_dict({"survey": sheet}))
            if st != "ok":
                continue
            root = xf.lparse(r.xform)
            data = root.find(xf.H + "head").find(xf.XF + "model").find(xf.XF + "instance")[0]

            def show(e):
                tag = e.tag.split("}", 1)[1]
                tm = "*" if any(k.endswith("}template") for k in e.attrib) else ""
                return tag + tm + "(" + "".join(show(c) + "," for c in e if isinstance(c.tag, str) and not c.tag.endswith("}meta")) + ")"
            cases.append({"coq": rows_coq(rows), "expected": show(data), "desc": {"rows": rows}, "class": f"repeats={min(sum(1 for x in rows if x[0] == 'b' and x[1] == 'repeat'), 3)}",
                          "nontrivial": len(rows) > 2})
        return cases


class IsRefOp(Op):
    """expression.is_pyxform_reference (decides whether a repeat_count gets a generated *_count node) against Model/RefText.v"""
    name = "R.is_pyxform_reference"
    imports = ["PX.Model.RefText"]
    fn = "fun s => if is_pyxform_reference s then [49%N] else [48%N]"
    in_ty = "list N"
    n_quick, n_thorough = 500, 5000

    def generate(self, rng, n):
        from pyxform.parsing.expression import is_pyxform_reference
        atoms = ["${", "}", "a", "q1", "x-y", "a.b", "é", "_u", "1", " ", "+", "-", "${a}", "${q1}", "${last-saved#a}", "${last-saved#}", "last-saved#", ":", "${a:b}", "${a:}", "${:a}", "\n", "\r",
                 "${a} + ${b}", "count(${a})", "#", "$", "{", "${1}", "${-a}", "${a }", "\u00a0"]
        cases = []
        for _ in range(n):
            s = "".join(rng.choice(atoms) for _ in range(rng.randint(0, 4)))
            exp = "1" if is_pyxform_reference(s) else "0"
            cases.append({"coq": cstr(s), "expected": exp, "desc": {"value": s}, "class": "reference" if exp == "1" else "not a reference", "nontrivial": "${" in s})
        return cases


class TypeCellOp(Op):
    """RE_END_CONTROL / RE_BEGIN_CONTROL / RE_SELECT, tried in workbook_to_json's order, against Model/TypeCell.v over the regenerated alias tables"""
    name = "T.type_cell"
    imports = ["PX.Gen.Types", "PX.Model.TypeCell"]
    fn = "fun t => show_kind (classify (map fst CONTROL_ALIASES) (map fst SELECT_ALIASES) t)"
    in_ty = "list N"
    n_quick, n_thorough = 800, 8000

    def generate(self, rng, n):
        from pyxform import aliases
        from pyxform.xls2json import RE_END_CONTROL, RE_BEGIN_CONTROL, RE_SELECT
        words = list(aliases.control) + list(aliases.select) + ["begin", "end", "over", "or_other", "or other", "or specify other", "or", "other", "l", "cities.csv", "yn", "x y", "from", "file",
                                                                  "é", "${q}", "text", "loop"]
        seps = [" ", "_", "  ", "\t", "\u00a0", "", "\n", " over ", "-"]
        lists = ["l", "cities.csv", "yn", "é", "${q}", "or_other", "over", "from", "file", "fromage", "x", "a-b", "or"]

        def show(t):
            m = RE_END_CONTROL.search(t)
            if m:
                return "E\x01" + m.group("type")
            m = RE_BEGIN_CONTROL.search(t)
            if m:
                return "B\x01" + m.group("type") + "\x01" + ("L" + m.group("list_name") if m.group("list_name") is not None else "-")
            m = RE_SELECT.search(t)
            if m:
                return "S\x01" + m.group("select_command") + "\x01" + m.group("list_name") + "\x01" + ("1" if m.group("specify_other") else "0")
            return "O"

        def structured():
            k = rng.random()
            ws = rng.choice([" ", " ", "_", "\t", "\u00a0", "  ", ""])
            if k < 0.3:
                t = "begin" + ws + rng.choice(list(aliases.control))
                if rng.random() < 0.6:
                    t += rng.choice([" ", " ", "  ", "_"]) + rng.choice(["", "over ", "over", "over  "]) + rng.choice(lists)
                if rng.random() < 0.15:
                    t += rng.choice([" x", " ", "\n"])
                return t
            if k < 0.45:
                return "end" + ws + rng.choice(list(aliases.control)) + rng.choice(["", "", " ", " x", "\n"])
            t = rng.choice(list(aliases.select)) + rng.choice([" ", " ", "  ", "_", ""]) + rng.choice(lists)
            if rng.random() < 0.5:
                t += rng.choice([" ", " ", "  ", "_"]) + rng.choice(["or_other", "or other", "or specify other", "or", "or_others", "OR_OTHER"])
            if rng.random() < 0.15:
                t += rng.choice([" x", " ", "\n", "\n\n"])
            if rng.random() < 0.1:
                t = rng.choice([" ", "x", "Begin "]) + t
            return t
        cases = []
        for _ in range(n):
            if rng.random() < 0.8:
                t = structured()
            else:
                k = rng.randint(1, 5)
                t = ""
                for j in range(k):
                    t += rng.choice(words)
                    if j < k - 1:
                        t += rng.choice(seps)
            e = show(t)
            cases.append({"coq": cstr(t), "expected": e, "desc": {"type": t}, "class": {"E": "end", "B": "begin", "S": "select", "O": "other"}[e[0]], "nontrivial": e[0] != "O"})
        return cases


def ops(tier):
    return [RowsOp(), c02.TreeOp(), EndToEndOp(), IsRefOp(), TypeCellOp()]


# ---- direct oracle: an independent sheet-to-tree reader ---------------------------------------------------
CONTROL_TAG = {"text": "input", "string": "input", "integer": "input", "int": "input", "decimal": "input", "date": "input", "time": "input",
               "dateTime": "input", "note": "input", "geopoint": "input", "geotrace": "input", "geoshape": "input", "barcode": "input",
               "image": "upload", "photo": "upload", "audio": "upload", "video": "upload", "file": "upload", "acknowledge": "trigger", "range": "range",
               "select_one": "select1", "select one": "select1", "select1": "select1", "select_multiple": "select", "select all that apply": "select",
               "rank": "odk:rank"}
NO_CONTROL = {"calculate", "hidden", "start", "end", "today", "deviceid", "username", "phonenumber", "email", "background-audio", "audit"}
MEDIATYPE = {"image": "image/*", "photo": "image/*", "audio": "audio/*", "video": "video/*", "file": "application/*"}
YES = {"yes", "Yes", "YES", "true", "True", "TRUE", "true()"}


def read_sheet(rows):
    """effective rows -> nested expectation [(kind, name, row, children)], with the documented generated companions"""
    pos = [0]

    def block(until):
        out = []
        while pos[0] < len(rows):
            row = rows[pos[0]]
            pos[0] += 1
            if row.get("disabled", "").strip() in YES:
                continue
            r = {k: v for k, v in row.items() if k != "disabled"}
            t = " ".join(r.get("type", "").split())
            if not t:
                continue
            m = re.match(r"^begin[ _](group|repeat)$", t)
            if m:
                kind = m.group(1)
                rc = r.get("repeat_count")
                if kind == "repeat" and rc and not re.match(r"^\$\{[^}]+\}$", rc.strip()):
                    out.append(("q", r["name"] + "_count", {"type": "calculate"}, []))
                out.append((kind, r["name"], r, block(kind)))
                continue
            m = re.match(r"^end[ _](group|repeat)$", t)
            if m:
                return out
            out.append(("q", r["name"], r, []))
            if t.endswith(" or_other"):
                out.append(("q", r["name"] + "_other", {"type": "text"}, []))
        return out
    return block(None)


def base_type(row):
    t = " ".join(row.get("type", "").split())
    for p in ("select_one_from_file", "select_multiple_from_file", "select_one_external", "select one", "select all that apply", "select_one", "select_multiple", "select1", "rank"):
        if t == p or t.startswith(p + " "):
            return {"select one": "select_one", "select1": "select_one", "select all that apply": "select_multiple"}.get(p, p)
    return t


def live_children(e, JRT):
    return [c for c in e if isinstance(c.tag, str) and c.get(JRT) is None]


def audit(form, xform):
    from lxml import etree
    JRT = c02.JRT
    X = xf.XF
    root = xf.lparse(xform)
    model = root.find(xf.H + "head").find(X + "model")
    inst = model.find(X + "instance")[0]
    body = root.find(xf.H + "body")
    exp = read_sheet(form["survey"])
    probs = []
    tl_sections = {r.get("name"): any(k.split("::")[0].split(":")[0].strip().lower() in ("label", "hint") for k in r)
                   for r in form["survey"] if r.get("type", "").startswith("begin") and "table-list" in str(r.get("appearance", ""))}

    def name_of(e):
        return etree.QName(e).localname

    def cmp_instance(e, expected, path, in_repeat_copy):
        kids = [c for c in e if isinstance(c.tag, str)]
        live = [c for c in kids if c.get(JRT) is None]
        got = [name_of(c) for c in live]
        sec = path.rsplit("/", 1)[-1]
        if sec in tl_sections:
            # a table-list section that has a label or a hint shows it in a generated first row (documented); one that has neither generates nothing
            has_helper = bool(got) and re.fullmatch(r"generated_table_list_label_\d+", got[0]) is not None
            if has_helper != tl_sections[sec]:
                probs.append(f"table-list section {path}: generated label row {'present' if has_helper else 'missing'}, the row {'has' if tl_sections[sec] else 'has no'} label or hint")
            if has_helper:
                live, got = live[1:], got[1:]
        want = [x[1] for x in expected]
        if path == "/" + name_of(inst):
            got = [g for g in got if g != "meta"]
        if got != want:
            probs.append(f"instance children of {path} are {got}, the sheet has {want}")
            return
        for c in kids:
            if c.get(JRT) is not None and in_repeat_copy:
                probs.append(f"a jr:template copy sits inside the live copy of a repeat at {path}/{name_of(c)}")
        for c, x in zip([c for c in live if not (path == '/' + name_of(inst) and name_of(c) == 'meta')], expected):
            if x[0] == "repeat" and not in_repeat_copy:
                prev = c.getprevious()
                if prev is None or name_of(prev) != x[1] or prev.get(JRT) is None:
                    probs.append(f"repeat {path}/{x[1]} has no jr:template copy immediately before it")
            if x[0] in ("group", "repeat"):
                cmp_instance(c, x[3], f"{path}/{x[1]}", in_repeat_copy or x[0] == "repeat")
            elif len([k for k in c if isinstance(k.tag, str)]):
                probs.append(f"question node {path}/{x[1]} has child elements")
    cmp_instance(inst, exp, "/" + name_of(inst), False)

    def controls(e):
        return [c for c in e if isinstance(c.tag, str) and name_of(c) not in ("label", "hint", "setvalue", "setgeopoint", "itemset", "item", "output")]

    def cmp_body(cs, expected, path):
        want = []
        for x in expected:
            if x[0] in ("group", "repeat"):
                want.append(("group", f"{path}/{x[1]}", x))
            else:
                bt = base_type(x[2])
                if bt in NO_CONTROL:
                    continue
                # a computed or triggered row is presented only when it has something to show: a label or a hint (Question.xml_control)
                cells = {"_".join(k.split("::")[0].split(":")[0].split()).lower() for k, v in x[2].items() if v}
                if ("calculation" in cells or "calculate" in cells or "trigger" in cells) and not ({"label", "hint"} & cells):
                    continue
                tag = CONTROL_TAG.get(bt)
                if bt == "select_one_external":
                    tag = "input"
                if tag is None and bt.endswith("_from_file"):
                    tag = "select1" if bt.startswith("select_one") else "select"
                if tag is None:
                    continue
                want.append((tag.split(":")[-1], f"{path}/{x[1]}", x))
        got = [(name_of(c), c.get("ref")) for c in cs]
        if path.rsplit("/", 1)[-1] in tl_sections and got and re.fullmatch(r".*/generated_table_list_label_\d+", got[0][1] or ""):
            cs, got = cs[1:], got[1:]
        if got != [(w[0], w[1]) for w in want]:
            probs.append(f"body under {path}: {got} but the sheet dictates {[(w[0], w[1]) for w in want]}")
            return
        for c, (tag, ref, x) in zip(cs, want):
            row = x[2]
            if x[0] == "repeat":
                inner = controls(c)
                if len(inner) != 1 or name_of(inner[0]) != "repeat" or inner[0].get("nodeset") != ref:
                    probs.append(f"repeat {ref} is not wrapped as group + repeat")
                    continue
                cmp_body(controls(inner[0]), x[3], ref)
            elif x[0] == "group":
                cmp_body(controls(c), x[3], ref)
                want_app = (row.get("appearance") or "").replace("table-list", "field-list")      # a table-list group is rendered as a field-list (documented)
                if row.get("appearance") and c.get("appearance") != want_app:
                    probs.append(f"group {ref}: appearance {c.get('appearance')!r} != {want_app!r}")
            else:
                bt = base_type(row)
                if bt in MEDIATYPE and c.get("mediatype") != MEDIATYPE[bt]:
                    probs.append(f"{ref}: mediatype {c.get('mediatype')!r} != {MEDIATYPE[bt]!r}")
                if row.get("appearance") and not (bt.startswith("select") and "search(" in row["appearance"]) and c.get("appearance") != row["appearance"]:
                    probs.append(f"{ref}: appearance {c.get('appearance')!r} != cell {row['appearance']!r}")
                m = re.search(r"rows=(\d+)", row.get("parameters", "")) if bt == "text" else None
                if m and c.get("rows") != m.group(1):
                    probs.append(f"{ref}: rows attribute {c.get('rows')!r} != parameter {m.group(1)!r}")
                if bt in ("geopoint", "geoshape", "geotrace"):
                    for prm_, att_ in (("capture-accuracy", "accuracyThreshold"), ("warning-accuracy", "unacceptableAccuracyThreshold")):
                        m = re.search(prm_ + r"=([-0-9.e]+)", row.get("parameters", ""))
                        if (m.group(1) if m else None) != c.get(att_):
                            probs.append(f"{ref}: {att_} is {c.get(att_)!r}, the parameter {prm_} says {m.group(1) if m else None!r}")
    cmp_body(controls(body), exp, "/" + name_of(inst))
    return probs


def _check(args):
    seed, i = args
    rng = rng_for(seed, PID, "oracle", i)
    prof = forms.Profile(adversarial=0.05, max_rows=rng.choice([5, 9, 14]), max_depth=4, p_group=0.22, p_repeat=0.2, p_or_other=0.15, p_appearance=0.5, p_params=0.6,
                         p_ref_in_label=0.05, p_logic=0.1)
    form = forms.gen_form(rng, prof)
    survey = form["survey"]
    # rows=N together with an appearance; disabled rows (yes and no); comment rows
    for r in survey:
        if r.get("type") in ("geopoint", "geoshape", "geotrace") and rng.random() < 0.6:
            # thresholds, zero included (capture-accuracy=0: never stop by itself)
            extra_ = [f"{k_}={rng.choice(['0', '0.0', '5', '2.5', '10'])}" for k_ in ("capture-accuracy", "warning-accuracy") if rng.random() < 0.6 and k_ not in r.get("parameters", "")]
            if extra_:
                r["parameters"] = " ".join(([r["parameters"]] if r.get("parameters") else []) + extra_)
        if r.get("type") == "text" and rng.random() < 0.4:
            r["parameters"] = f"rows={rng.choice([2, 3, 6])}"
            if rng.random() < 0.6:
                r["appearance"] = "multiline"
    if rng.random() < 0.4:
        for r in list(survey):
            if r.get("name") and rng.random() < 0.3:
                r["disabled"] = rng.choice(["no", "false", "No", "FALSE"])
        k = rng.randint(0, len(survey))
        survey.insert(k, {"type": "text", "name": "dis_q", "label": "gone", "disabled": rng.choice(["yes", "true", "TRUE"])})
    if rng.random() < 0.3:
        survey.insert(rng.randint(0, len(survey)), {"relevant": "comment row without type name or label"})
    if i % 3 == 2:
        forms.add_exotics(rng_for(seed, PID, "exotic", i), form, ["count_expr", "count_expr", "empty_group", "calc_msgs", "hint_only_computed", "hint_only_computed", "seeded_select", "table_list_repeat_plain", "shared_repeat_name"], p=0.5)
    st, r = xf.convert_form(forms.as_dict(form))
    if st != "ok":
        return {"i": i, "skip": st + ":" + str(r)[:60]}
    try:
        probs = audit(form, r.xform)
    except Exception as e:
        return {"i": i, "form": form, "what": f"oracle could not read the output: {e!r}"}
    if probs:
        return {"i": i, "form": form, "what": "; ".join(probs)[:800], "xform": r.xform[:3000]}
    depth = max((len(p) for p in [[]]), default=0)
    return {"i": i, "ok": True, "key": hash(json.dumps(form["survey"], sort_keys=True)), "nested": any(x.get("type", "").startswith("begin") for x in survey)}


def oracle(seed, tier, searching=False):
    n = 600 if tier == "quick" else 10000
    if searching:
        n *= 3
    res = pmap(_check, [(seed, i) for i in range(n)])
    fails = [r for r in res if "what" in r]
    oks = [r for r in res if r.get("ok")]
    skips = {}
    for r in res:
        if "skip" in r:
            skips[r["skip"][:50]] = skips.get(r["skip"][:50], 0) + 1
    return {
        "evaluations": len(res), "distinct_nontrivial": len({r["key"] for r in oks if r["nested"]}),
        "rule": "generated XLSForms (all generator question types, nested groups/repeats, repeat_count, or_other, appearance+parameters, disabled "
                "yes/no rows, comment rows) converted by the real convert(); an independent recursive-descent reader derives the expected instance "
                "and body trees from the sheet; instance order/nesting, generated *_count/*_other/meta, jr:template placement, control tag per type, "
                "mediatype, appearance and rows attributes are compared; non-trivial = at least one group or repeat",
        "accepted": len(oks), "skipped": skips,
        "failures": [{"input": {"form": f["form"], "case": f["i"]}, "what": f["what"], "observed": f.get("xform"),
                      "reproduce": "cd /verif && /venv/bin/python harness/check.py C04 --replay <this file>"} for f in fails[:8]],
        "samples": [{"oracle_case": r["i"], "nested": r["nested"]} for r in oks[:3]],
    }


def replay_finding(slug):
    return None


def replay(path: Path) -> int:
    payload = json.loads(Path(path).read_text())
    form = payload["input"]["form"]
    st, r = xf.convert_form(forms.as_dict(form))
    if st == "ok":
        probs = audit(form, r.xform)
        print(probs)
        if probs:
            print(f"VIOLATION property={PID} replay={path}")
            return 1
    return 0
