"""C05 — logic cells reach the right bind unchanged, with the type the table prescribes."""

from __future__ import annotations

import json
import re
from pathlib import Path

from common import cstr, clist, cbool, rng_for
from opbase import Op, pmap
import forms
import xf

PID = "C05"
GUARD = "bind values are reference-free in the Coq model (substitution is C03's subject); row bind dicts have unique keys (Python dicts)"
MODELLED = ("process_header, Question.__init__'s bind merge and SurveyElement.xml_bindings (coq/Model/{Headers,Bind}.v); alias tables, "
            "BINDING_CONVERSIONS, CONVERTIBLE_BIND_ATTRIBUTES and the type table are regenerated. Parameter-derived bind attributes (audit odk:*, "
            "orx:max-pixels, odk:quality, odk:allow-mock-accuracy, range decimal) are decided on the implementation by the bind-map oracle")
ASSUMPTIONS = ["lower() is ASCII folding on header text the generators emit"]

HEADERS = ["relevant", "Relevant", "relevance", " required ", "read_only", "Read Only", "readonly", "constraint", "constraint_message", "Constraint Message",
           "constraining_message", "required_message", "requiredmsg", "calculation", "calculate", "bind::custom", "bind :: relevant", "bind:relevant", "bind::jr:foo",
           "bind:jr:preload", "label", "label::en", "label:en", "Label::English (en)", "hint :: fr", "media::image", "media::image::en", "image", "image::fr", "caption",
           "name", "type", "appearance", "body::accuracyThreshold", "instance::x", "count", "repeat_count", "jr:count", "unknown col", "Unknown", "choice_filter",
           "default", "parameters", "trigger", "save_to", "constraint_message::en", "jr:constraintMsg", "bind::jr:constraintMsg::en", "guidance_hint::es", "no_app_error_string",
           "body", "body::x", "audio", "big-image::en", "video", "compact_tag", "sms_field", "a:b:c", "x::", "::y", "jr", "a:jr", "jr:x:y", "label::", " "]


class HeaderOp(Op):
    """process_header for the survey sheet (aliases, case/spacing, both delimiters, jr: handling, unknown columns)"""
    name = "B.process_header"
    imports = ["PX.Model.Headers", "PX.Gen.Headers"]
    fn = ("fun p => match process_header SURVEY_HEADER_ALIASES SURVEY_COLUMNS (fst p) (snd p) with Some ts => join [1%N] ts | None => [33%N] end")
    in_ty = "(bool * list N)"
    n_quick, n_thorough = 400, 3000

    def generate(self, rng, n):
        from pyxform.parsing.sheet_headers import process_header
        from pyxform import aliases
        from pyxform.question import MultipleChoiceQuestion
        cols = set(MultipleChoiceQuestion.get_slot_names())
        cases = []
        for i in range(n):
            h = HEADERS[i] if i < len(HEADERS) else rng.choice(HEADERS)
            if i >= len(HEADERS) and rng.random() < 0.5:
                h = rng.choice([h.upper(), h.title(), " " + h, h + " ", h.replace("_", " "), h.replace("::", " :: "), h.replace("::", ":")])
            udc = rng.random() < 0.5
            try:
                _, toks = process_header(header=h, use_double_colon=udc, header_aliases=aliases.survey_header, header_columns=cols)
                exp = "\x01".join(toks)
            except IndexError:
                exp = "!"
            cases.append({"coq": f"({cbool(udc)}, {cstr(h)})", "expected": exp, "desc": {"header": h, "use_double_colon": udc},
                          "class": "bind" if exp.startswith("bind") else ("error" if exp == "!" else "other")})
        return cases


BIND_KEYS = ["relevant", "required", "readonly", "constraint", "calculate", "jr:constraintMsg", "jr:requiredMsg", "custom", "type", "jr:preload", "odk:length", "entities:saveto"]
BIND_VALS = ["yes", "no", "true()", "TRUE", "False", ". > 3", "selected(., 'a')", "Yes", "text & <b>", "1", "", "NO", "true", "x = 'yes'"]
TYPES = ["text", "integer", "calculate", "start", "deviceid", "note", "photo", "decimal", "geopoint", "date"]


def dcoq(d):
    return clist([f"({cstr(k)}, {cstr(v)})" for k, v in d.items()], "(list N * list N)")


class BindOp(Op):
    """Question bind merge + xml_bindings against Model/Bind.v (type defaults from the live type table)"""
    name = "D.bind"
    imports = ["PX.Model.Bind", "PX.Gen.Headers"]
    fn = ("fun p => let '(td, rb, trig) := p in join [1%N] (map (fun kv => fst kv ++ [61%N] ++ snd kv) "
          "(bind_attrs BINDING_CONVERSIONS CONVERTIBLE_BIND_ATTRIBUTES [47;100;97;116;97;47;113]%N (question_bind td rb) trig))")
    in_ty = "(list (list N * list N) * list (list N * list N) * bool)"
    n_quick, n_thorough = 300, 3000

    def generate(self, rng, n):
        from pyxform.builder import create_survey_element_from_dict
        from pyxform.question_type_dictionary import QUESTION_TYPE_DICT
        cases = []
        for i in range(n):
            ty = rng.choice(TYPES)
            rb = {k: rng.choice(BIND_VALS) for k in rng.sample(BIND_KEYS, rng.randint(0, 5))}
            rb = {k: v for k, v in rb.items() if v != "" or rng.random() < 0.3}
            trig = rng.random() < 0.3
            q = {"type": ty, "name": "q", "label": "L"}
            if rb:
                q["bind"] = dict(rb)
            children = [{"type": "text", "name": "a", "label": "A"}, q]
            if trig:
                q["trigger"] = "${a}"
            sv = create_survey_element_from_dict({"type": "survey", "name": "data", "id_string": "x", "title": "x", "children": children})
            sv._setup_xpath_dictionary()
            binds = list(sv.children[1].xml_bindings(sv))
            if not binds:
                exp = ""
            else:
                b = binds[0]
                exp = "\x01".join(f"{b.attributes.item(j).name}={b.attributes.item(j).value}" for j in range(b.attributes.length))
            td = dict(QUESTION_TYPE_DICT[ty].get("bind") or {})
            if not td and not rb:
                continue   # no bind at all for this row: the model's bind_attrs applies to rows that have a bind dict
            cases.append({"coq": f"({dcoq(td)}, {dcoq(rb)}, {cbool(trig)})", "expected": exp, "desc": {"type": ty, "row_bind": rb, "trigger": trig},
                          "class": f"{ty}/{'trigger' if trig else 'plain'}"})
        return cases


class SetAttributesOp(Op):
    """any sequence of DetachableElement.setAttribute calls (plain and prefixed names sharing a local name, repeated names) against the dict
    model of Proofs/AttrUnique.v: order of first appearance, last value wins, no name lost"""
    name = "B.set_attributes"
    imports = ["PX.Model.Bind", "PX.Proofs.AttrUnique"]
    fn = "fun calls => flat_map (fun kv => fst kv ++ [61%N] ++ snd kv ++ [1%N]) (set_attributes calls)"
    in_ty = "list (list N * list N)"
    n_quick, n_thorough = 200, 2000

    def generate(self, rng, n):
        from pyxform.utils import DetachableElement
        names = ["type", "ex:type", "a:type", "nodeset", "esri:nodeset", "ref", "x:ref", "required", "jr:constraintMsg", "odk:length", "id", "ex:id", "custom", "é"]
        vals = ["string", "T", "/data/q", "yes", "a < b & \"c\"", "", " spaced "]
        cases = []
        for _ in range(n):
            calls = [(rng.choice(names), rng.choice(vals)) for _ in range(rng.randint(0, 7))]
            el = DetachableElement("bind")
            for k, v in calls:
                el.setAttribute(k, v)
            exp = "".join(f"{k}={a.value}\x01" for k, a in (el._attrs or {}).items())
            cases.append({"coq": clist([f"({cstr(k)}, {cstr(v)})" for k, v in calls], "(list N * list N)"), "expected": exp, "desc": {"calls": calls},
                          "class": f"calls={len(calls)} names={len({k for k, _ in calls})}", "nontrivial": len({k.split(':')[-1] for k, _ in calls}) < len({k for k, _ in calls})})
        return cases


def ops(tier):
    return [HeaderOp(), BindOp(), SetAttributesOp()]


# ---- direct oracle: bind map of real convert() output against the sheet ---------------------------------
LOGIC = {"relevant": "relevant", "relevance": "relevant", "required": "required", "read_only": "readonly", "readonly": "readonly", "constraint": "constraint",
         "calculation": "calculate", "calculate": "calculate", "constraint_message": "{http://openrosa.org/javarosa}constraintMsg",
         "required_message": "{http://openrosa.org/javarosa}requiredMsg", "noapperrorstring": "{http://openrosa.org/javarosa}noAppErrorString",
         "no_app_error_string": "{http://openrosa.org/javarosa}noAppErrorString"}
TRUTH = {"yes": "true()", "Yes": "true()", "YES": "true()", "true": "true()", "True": "true()", "TRUE": "true()",
         "no": "false()", "No": "false()", "NO": "false()", "false": "false()", "False": "false()", "FALSE": "false()"}
BIND_TYPE = {"text": "string", "string": "string", "integer": "int", "int": "int", "decimal": "decimal", "date": "date", "time": "time", "dateTime": "dateTime",
             "note": "string", "geopoint": "geopoint", "geotrace": "geotrace", "geoshape": "geoshape", "barcode": "barcode", "image": "binary", "photo": "binary",
             "audio": "binary", "video": "binary", "file": "binary", "acknowledge": "string", "calculate": "string", "hidden": "string", "start": "dateTime",
             "end": "dateTime", "today": "date", "deviceid": "string", "username": "string", "phonenumber": "string", "email": "string", "background-audio": "binary",
             "select_one": "string", "select_multiple": "string", "rank": "odk:rank"}
PRELOAD = {"start": ("timestamp", "start"), "end": ("timestamp", "end"), "today": ("date", "today"), "deviceid": ("property", "deviceid"),
           "username": ("property", "username"), "phonenumber": ("property", "phonenumber"), "email": ("property", "email")}
JR = "{http://openrosa.org/javarosa}"


def norm_expr(s):
    return re.sub(r"\s+", "", re.sub(r"\$\{[^}]*\}|(?:current\(\)/)?(?:\.\./)+[\w./-]*|/[\w./-]+", "@", s))


def expected_binds(form):
    """path -> {attr: expected value (references abstracted)} from the sheet alone"""
    out = {}
    path = ["data"]
    name_setting = (form.get("settings") or [{}])[0].get("name")
    if name_setting:
        path = [name_setting]
    for row in form["survey"]:
        t = " ".join(row.get("type", "").split())
        if re.match(r"^end[ _](group|repeat)$", t):
            path.pop()
            continue
        m = re.match(r"^begin[ _](group|repeat)$", t)
        cells = {}
        for col, v in row.items():
            base = "_".join(col.split("::")[0].split()).lower()
            if "::" in col and base in ("constraint_message", "required_message") and len(col.split("::")) == 2:
                cells.setdefault("__translated__", {}).setdefault(LOGIC[base], {})[col.split("::")[1].strip()] = " ".join(v.split())
                continue
            if "::" in col and base != "bind":
                continue
            if base in LOGIC:
                attr = LOGIC[base]
                vv = " ".join(v.split())
                cells[attr] = TRUTH.get(vv, vv) if not attr.startswith("{") else vv
            elif base == "bind" and "::" in col:
                a = col.split("::", 1)[1].strip()
                if a == "jr:noAppErrorString":
                    cells["{http://openrosa.org/javarosa}noAppErrorString"] = " ".join(v.split())
                    continue
                if ":" in a:
                    continue
                cells[a] = " ".join(v.split())
        p = "/" + "/".join([*path, row["name"]]) if row.get("name") else None
        if m:
            path.append(row["name"])
            if cells:
                out[p] = (cells, None, bool(row.get("trigger")))
            continue
        if not p:
            continue
        bt = row["type"].split()[0] if not row["type"].startswith(("select one", "select all")) else ("select_one" if row["type"].startswith("select one") else "select_multiple")
        bt = {"select1": "select_one", "photo": "image"}.get(bt, bt)
        out[p] = (cells, bt, bool(row.get("trigger")))
    return out


def audit(form, xform):
    root = xf.lparse(xform)
    X = xf.XF
    model = root.find(xf.H + "head").find(X + "model")
    binds = {}
    probs = []
    for b in model.iter(X + "bind"):
        ns = b.get("nodeset")
        if ns in binds:
            probs.append(f"two binds for {ns}")
        binds[ns] = b
    exp = expected_binds(form)
    for p, (cells, bt, trig) in exp.items():
        b = binds.get(p)
        if b is None:
            if cells or bt:
                probs.append(f"no bind for {p} although the row has logic/type")
            continue
        translated = cells.pop("__translated__", {})
        for attr, by_lang in translated.items():
            # a message with translated cells: the bind refers to itext, and every language shows its own cell (the unsuffixed cell is the default language's)
            got = b.get(attr)
            short = attr.split("}")[-1]
            if not (got or "").startswith("jr:itext("):
                probs.append(f"{p}: {short} has translated cells {sorted(by_lang)} but the bind carries {got!r} instead of an itext reference")
                continue
            tid = re.match(r"jr:itext\('(.*)'\)", got).group(1)
            want = dict(by_lang)
            if attr in cells:
                want.setdefault("default", cells[attr])
            for tr in model.iter(X + "translation"):
                lang = tr.get("lang")
                val = next((("".join(t.itertext())) for t in tr if t.get("id") == tid), None)
                if lang in want and (val is None or " ".join(val.split()) != want[lang]):
                    probs.append(f"{p}: {short} in language {lang!r} is {val!r}, the cell says {want[lang]!r}")
            for lang in want:
                if lang not in [tr.get("lang") for tr in model.iter(X + "translation")]:
                    probs.append(f"{p}: {short} has a cell for language {lang!r} but no such translation exists")
        for attr, v in cells.items():
            if attr in translated:
                continue
            if attr == "calculate" and trig:
                if b.get("calculate") is not None:
                    probs.append(f"{p}: calculate emitted on the bind although the row has a trigger")
                continue
            got = b.get(attr)
            if got is not None and "${" in got:
                probs.append(f"{p}: a ${{...}} reference survives in the bind's {attr.split('}')[-1]}: {got[:160]!r}")
            if got is None:
                probs.append(f"{p}: cell {attr.split('}')[-1]}={v!r} did not reach the bind")
            elif got.startswith("jr:itext("):
                # an untranslated constraint / required message that holds a reference is shown through itext (its <output/> needs a text
                # element); any other untranslated cell must reach the bind itself -- and a referenced text must exist
                tid = re.match(r"jr:itext\('(.*)'\)", got)
                texts = {t.get("id") for t in model.iter(X + "text")}
                if not (attr.endswith(("constraintMsg", "requiredMsg")) and "${" in v):
                    probs.append(f"{p}: the untranslated cell {attr.split('}')[-1]}={v!r} reached the bind as the itext reference {got!r}")
                elif not tid or tid.group(1) not in texts:
                    probs.append(f"{p}: bind {attr.split('}')[-1]} refers to {got!r}, which no translation defines")
                continue
            elif norm_expr(got) != norm_expr(v):
                probs.append(f"{p}: bind {attr.split('}')[-1]} is {got!r}, the cell says {v!r}")
        if bt is not None:
            want = BIND_TYPE.get(bt)
            if bt == "range" or want is None:
                pass
            elif b.get("type") != want and "type" not in cells:
                probs.append(f"{p}: bind type {b.get('type')!r}, the type table prescribes {want!r} for {bt}")
            if bt in PRELOAD and (b.get(JR + "preload"), b.get(JR + "preloadParams")) != PRELOAD[bt]:
                probs.append(f"{p}: preload attributes {(b.get(JR + 'preload'), b.get(JR + 'preloadParams'))} != {PRELOAD[bt]}")
        # parameter-derived attributes
        row = next((r for r in form["survey"] if r.get("name") == p.split("/")[-1]), {})
        prm = row.get("parameters", "")
        m = re.search(r"max-pixels=(\d+)", prm)
        if m and bt == "image" and b.get("{http://openrosa.org/xforms}max-pixels") != m.group(1):
            probs.append(f"{p}: orx:max-pixels {b.get('{http://openrosa.org/xforms}max-pixels')!r} != parameter {m.group(1)}")
        m = re.search(r"quality=([\w-]+)", prm)
        if m and bt == "audio" and b.get("{http://www.opendatakit.org/xforms}quality") != m.group(1):
            probs.append(f"{p}: odk:quality missing or wrong")
        if bt == "range":
            nums = re.findall(r"=\s*([0-9.]+)", prm)
            want = "decimal" if any("." in x for x in nums) else "int"
            if b.get("type") != want:
                probs.append(f"{p}: range bind type {b.get('type')!r}, the parameters {prm!r} dictate {want!r}")
    # rows with no logic and no typed bind get none; every bind belongs to some row or generated node
    return probs


def _check(args):
    seed, i = args
    rng = rng_for(seed, PID, "oracle", i)
    prof = forms.Profile(adversarial=0.0, max_rows=rng.choice([4, 8, 12]), p_logic=0.7, p_ref_in_label=0.0, p_params=0.7, p_trigger=0.3, p_default=0.0, languages=[],
                         types=[*forms.SIMPLE_TYPES, "image", "range", "audio"])
    form = forms.gen_form(rng, prof)
    # aliases, column order, bind:: columns, logic to the right of calculation, range parameter orders
    for r in form["survey"]:
        if r.get("type") == "range":
            r["parameters"] = rng.choice(["start=0.5 end=5 step=1", "step=0.5 start=0 end=5", "start=1 end=10 step=1", "start=0.5", "end=9", "start=1 end=2.5 step=0.5"])
        if r.get("name") and not r["type"].startswith(("begin", "end")) and rng.random() < 0.3:
            r[rng.choice(["bind::custom", "bind::custom", "bind::tag", "bind::toParseString"])] = rng.choice(["v1", "x y", "yes"])
        if r.get("name") and not r["type"].startswith(("begin", "end")) and rng.random() < 0.15:
            # a custom attribute in a declared namespace whose local name is that of an attribute pyxform writes itself
            r[rng.choice(["bind::ex:type", "bind::ex:required", "bind::ex:relevant", "bind::ex:constraint", "bind::ex:readonly"])] = "custom"
            form.setdefault("settings", [{}])[0]["namespaces"] = 'ex="http://example.com/x"'
        if r.get("type") == "calculate" and r.get("trigger"):
            for c in rng.sample(["relevant", "required", "constraint"], rng.randint(1, 3)):
                r[c] = rng.choice(["yes", ". > 1", "${%s} != ''" % r["trigger"][2:-1]])
        if rng.random() < 0.3:
            items = list(r.items())
            rng.shuffle(items)
            r.clear()
            r.update(items)
    for a, b in (("relevant", "relevance"), ("calculation", "calculate"), ("read_only", "readonly")):
        if rng.random() < 0.3:     # one spelling per sheet: two aliases of one column are (rightly) rejected
            for r in form["survey"]:
                if a in r:
                    r[b] = r.pop(a)
    if i % 4 == 1:
        # a message given both unsuffixed and per language, with the translated column to the LEFT or to the RIGHT of the unsuffixed one
        rm = rng_for(seed, PID, "messages", i)
        cand = [r for r in form["survey"] if r.get("name") and not r["type"].startswith(("begin", "end")) and r["type"].split()[0] in ("integer", "int", "text", "string", "decimal")]
        for r in cand[:2]:
            msg = rm.choice(["constraint_message", "required_message"])
            base_cell = "constraint" if msg == "constraint_message" else "required"
            r.setdefault(base_cell, ". != ''" if base_cell == "constraint" else "yes")
            r.pop(msg, None)
            cells_ = [(f"{msg}::French (fr)", "msg fr"), (msg, "msg plain")]
            if rm.random() < 0.5:
                cells_.reverse()
            if rm.random() < 0.3:
                cells_.append((f"{msg}::es", "msg es"))
            for k, v in cells_:
                r[k] = v
    if i % 5 == 2:
        forms.add_exotics(rng_for(seed, PID, "exotic", i), form, ["noapp_ref", "group_truth"], p=0.8)
    if i % 7 == 3:
        # one logic cell holding many references (a sum over twenty questions): every one of them is substituted
        rm_ = rng_for(seed, PID, "many-refs", i)
        qn_ = [r_["name"] for r_ in form["survey"] if r_.get("name") and not r_["type"].startswith(("begin", "end")) and r_["type"].split()[0] in ("integer", "int", "decimal", "text", "string")]
        depth_ = 0
        for r_ in form["survey"]:
            depth_ += r_.get("type", "").startswith("begin") - r_.get("type", "").startswith("end")
        if qn_ and depth_ == 0:
            k_ = rm_.choice([17, 18, 20, 33])
            expr_ = " + ".join("${%s}" % rm_.choice(qn_) for _ in range(k_))
            form["survey"].append({"type": "calculate", "name": "many_refs_sum", rm_.choice(["calculation", "relevant", "constraint"]): expr_, "calculation": expr_})
    audit_params = None
    if i % 4 == 2 and not any(r_.get("type") == "audit" for r_ in form["survey"]):
        # an audit row with any subset of its parameters: each becomes an odk: attribute of the bind of meta/audit, none is lost beside another
        ra = rng_for(seed, PID, "audit", i)
        audit_params = {}
        if ra.random() < 0.5:
            audit_params.update({"location-priority": ra.choice(["balanced", "high-accuracy", "low-power", "no-power"]), "location-min-interval": ra.choice(["60", "10"]),
                                 "location-max-age": ra.choice(["120", "60"])})
        for k_, vs_ in (("track-changes", ["true", "false"]), ("identify-user", ["true", "false"]), ("track-changes-reasons", ["on-form-edit"])):
            if ra.random() < 0.6:
                audit_params[k_] = ra.choice(vs_)
        items_ = list(audit_params.items())
        ra.shuffle(items_)
        row_ = {"type": "audit", "name": "audit"}
        if items_:
            row_["parameters"] = ra.choice([" ", ", ", ";"]).join(f"{k_}={v_}" for k_, v_ in items_)
        audit_row = row_
    # multi-word headers written with any white space between the words (the audit reads the canonical key)
    conv = form
    if i % 3 == 0:
        rx = rng_for(seed, PID, "header-ws", i)
        import copy
        conv = copy.deepcopy(form)
        respell = {}
        for key in ("read_only", "constraint_message", "required_message", "repeat_count"):
            w = key.split("_")
            respell[key] = rx.choice([key, " ".join(w), "\u00a0".join(w), "\t".join(w), "\n".join(w), "  ".join(w).title(), f" {' '.join(w)} ", "\u2003".join(w)])
        for row in conv["survey"]:
            items = [(respell.get(k, k), v) for k, v in row.items()]
            row.clear()
            row.update(items)
    if audit_params is not None:
        import copy
        conv = copy.deepcopy(conv)          # the audit row lives in the meta block: it is added to the converted workbook only, the row audit does not see it
        conv["survey"].insert(0, audit_row)
    st, r = xf.convert_form(forms.as_dict(conv))
    if st != "ok":
        return {"i": i, "skip": st + ":" + str(r)[:50]}
    try:
        probs = audit(form, r.xform)
        if audit_params is not None:
            root_ = xf.lparse(r.xform)
            ab_ = [b for b in root_.iter(xf.XF + "bind") if (b.get("nodeset") or "").endswith("/meta/audit")]
            if len(ab_) != 1:
                probs.append(f"{len(ab_)} binds for meta/audit")
            else:
                got_ = {k.split("}")[-1]: v for k, v in ab_[0].attrib.items() if k.startswith("{http://www.opendatakit.org/xforms}")}
                if got_ != audit_params:
                    probs.append(f"the audit bind carries {got_}, the parameters cell says {audit_params}")
    except Exception as e:
        return {"i": i, "form": form, "what": f"oracle could not audit: {e!r}"}
    if probs:
        return {"i": i, "form": form, "converted_as": conv if conv is not form else None, "what": "; ".join(probs)[:800], "xform": r.xform[:2500]}
    return {"i": i, "ok": True, "key": hash(r.xform), "n": r.xform.count("<bind")}


def oracle(seed, tier, searching=False):
    n = 600 if tier == "quick" else 10000
    if searching:
        n *= 3
    res = pmap(_check, [(seed, i) for i in range(n)])
    fails = [r for r in res if "what" in r]
    oks = [r for r in res if r.get("ok")]
    skips = {}
    for r in res:
        if "skip" in r:
            skips[r["skip"][:50]] = skips.get(r["skip"][:50], 0) + 1
    return {
        "evaluations": len(res), "distinct_nontrivial": len({r["key"] for r in oks if r["n"] > 1}),
        "rule": "generated XLSForms with logic in most rows, column aliases, shuffled column order, bind:: columns, triggers with logic to the right of "
                "calculation, image/audio/range parameters in every order; the bind map of the real XForm is compared with the map derived from the sheet "
                "(attribute per logic cell, yes/no normalisation, references abstracted), plus type-table bind type, preload attributes and "
                "parameter-derived attributes",
        "accepted": len(oks), "skipped": skips,
        "failures": [{"input": {"form": f["form"], "converted_as": f.get("converted_as"), "case": f["i"]}, "what": f["what"], "observed": f.get("xform"),
                      "reproduce": "cd /verif && /venv/bin/python harness/check.py C05 --replay <this file>"} for f in fails[:8]],
        "samples": [{"oracle_case": r["i"], "binds": r["n"]} for r in oks[:3]],
    }


def replay_finding(slug):
    return None


def replay(path: Path) -> int:
    payload = json.loads(Path(path).read_text())
    form = payload["input"]["form"]
    st, r = xf.convert_form(forms.as_dict(payload["input"].get("converted_as") or form))
    if st == "ok":
        probs = audit(form, r.xform)
        print(probs)
        if probs:
            print(f"VIOLATION property={PID} replay={path}")
            return 1
    return 0
