"""C06 — user text is data, never markup."""

from __future__ import annotations

import copy
import json
import re
from pathlib import Path

from common import cstr, clist, rng_for
from opbase import Op, pmap
import forms
import xf
from props import c15

PID = "C06"
GUARD = ("text within the XML Char production (finding F3 otherwise); attribute channels are compared modulo XML's own "
         "attribute-value normalisation (TAB/LF/CR read as space); reference paths are free of quote, lt, gt, amp (true of NCName paths)")
MODELLED = ("escape_text_for_xml, _write_data, the four writers, insert_output_values' escape-substitute-reparse pipeline and "
            "node(toParseString=True) (coq/Model/{Dom,Mixed}.v); where each cell lands in the XForm is decided by the direct oracle")
ASSUMPTIONS = c15.ASSUMPTIONS

SMART = {"‘": "'", "’": "'", "“": '"', "”": '"'}


def smart(s):
    return "".join(SMART.get(c, c) for c in s)


def norm_survey(s):
    return smart(re.sub(r"( )+", " ", s.strip()))


def norm_attr(s):
    return re.sub(r"[\t\n\r]", " ", s)


class MixedOp(Op):
    """insert_output_values + node(toParseString=True) against Model/Mixed.v, on hostile text around references."""
    name = "D.insert_output_values"
    imports = ["PX.Model.Dom", "PX.Model.Mixed"]
    fn = "fun p => render (snd p) ++ [0%N] ++ node_parsed_xml (fst p) (snd p)"
    in_ty = "(list N * list piece)"
    n_quick, n_thorough = 300, 4000

    def generate(self, rng, n):
        from pyxform.builder import create_survey_element_from_dict
        from pyxform.utils import node
        sv = create_survey_element_from_dict({"type": "survey", "name": "data", "id_string": "x", "title": "x", "children": [
            {"type": "text", "name": "q0", "label": "a"}, {"type": "text", "name": "r_1", "label": "b"},
            {"type": "group", "name": "g", "children": [{"type": "text", "name": "in_g", "label": "c"}]}]})
        sv.validate()
        sv._setup_xpath_dictionary()
        ctx = sv.children[0]
        paths = {"q0": " /data/q0 ", "r_1": " /data/r_1 ", "in_g": " /data/g/in_g "}
        cases = []
        while len(cases) < n:
            pieces, text = [], ""
            for _ in range(rng.randint(1, 5)):
                if rng.random() < 0.55:
                    s = forms.adversarial_text(rng, 1, 3, allow_space_edges=True).replace("\r", "")
                    if rng.random() < 0.3:
                        s = rng.choice([" ", "", "  "]) + s + rng.choice([" ", "", "\n"])
                    if not s or "{" in s and "$" in s:
                        continue
                    if pieces and pieces[-1][0] == "T":
                        pieces[-1] = ("T", pieces[-1][1] + s)
                    else:
                        pieces.append(("T", s))
                    text += s
                else:
                    nm = rng.choice(list(paths))
                    pieces.append(("R", paths[nm]))
                    text += "${" + nm + "}"
            if not text or text == "-" or "instance(" in text:
                continue
            xml_text, changed = sv.insert_output_values(text, ctx)
            if not changed:
                xml_text_eff = None
            tag = rng.choice(["label", "hint", "value"])
            try:
                dom = node(tag, xml_text, toParseString=True) if changed else node(tag, xml_text)
                out = dom.toxml()
            except Exception as e:
                out = "ERR"
            if not changed:
                continue   # no reference: the text channel, covered by E.write
            coq_ps = clist([f"(PTxt {cstr(v)})" if k == "T" else f"(PRef {cstr(v)})" for k, v in pieces], "piece")
            cases.append({"coq": f"({cstr(tag)}, {coq_ps})", "expected": xml_text + "\x00" + out,
                          "desc": {"cell": text, "tag": tag}, "class": f"refs={sum(1 for p in pieces if p[0] == 'R')}"})
        return cases


def ops(tier):
    return c15.ops(tier)[:2] + [MixedOp()]


# ---- direct oracle -----------------------------------------------------------------------------------
CELLS = ["label", "hint", "guidance_hint", "constraint_message", "required_message", "default", "appearance", "bind_custom",
         "choice_label", "choice_extra", "title", "version", "settings_attr", "group_label", "instance_custom"]


def hostile(rng, ref_ok=False):
    s = forms.adversarial_text(rng, 1, 4)
    s = s.replace("\r", "")
    if ref_ok and rng.random() < 0.5:
        parts = s.split(" ")
        parts.insert(rng.randint(0, len(parts)), "${q0}")
        s = " ".join(parts)
    return s


Q1NAME = "q1"


def build_form(rng):
    langs = rng.choice([[], [], ["en"], ["English (en)", "French (fr)"]])
    cells = {}
    global Q1NAME
    Q1NAME = "ex:q1" if rng.random() < 0.25 else "q1"         # a question in a declared namespace: its itext ids hold one more colon
    q1 = {"type": "text", "name": Q1NAME}

    def put(row, col, key, ref_ok=True, translatable=True):
        if langs and translatable:
            for l in langs:
                s = hostile(rng, ref_ok)
                row[f"{col}::{l}"] = s
                cells[(key, l)] = s
        else:
            s = hostile(rng, ref_ok)
            row[col] = s
            cells[(key, None)] = s

    put(q1, "label", "label")
    if rng.random() < 0.7:
        put(q1, "hint", "hint")
    if rng.random() < 0.4:
        put(q1, "guidance_hint", "guidance_hint")
    if rng.random() < 0.6:
        q1["constraint"] = ". != 'zz'"
        put(q1, "constraint_message", "constraint_message")
    if rng.random() < 0.5:
        q1["required"] = "yes"
        put(q1, "required_message", "required_message")
    if rng.random() < 0.6:
        put(q1, "default", "default", ref_ok=False, translatable=False)
    if rng.random() < 0.4:
        s = hostile(rng)
        if "search" not in s:
            q1["appearance"] = s
            cells[("appearance", None)] = s
    if rng.random() < 0.5:
        put(q1, "bind::custom", "bind_custom", ref_ok=False, translatable=False)
    if rng.random() < 0.3:
        put(q1, "instance::extra", "instance_custom", ref_ok=False, translatable=False)
    q2 = {"type": "select_one l", "name": "q2", "label": "pick"}
    if langs:
        q2 = {"type": "select_one l", "name": "q2", **{f"label::{l}": "pick" for l in langs}}
    g = {"type": "begin group", "name": "g"}
    put(g, "label", "group_label")
    inner = {"type": "integer", "name": "n", "label": "N"} if not langs else {"type": "integer", "name": "n", **{f"label::{l}": "N" for l in langs}}
    q0 = {"type": "text", "name": "q0", "label": "zero"} if not langs else {"type": "text", "name": "q0", **{f"label::{l}": "zero" for l in langs}}
    ch_a = {"list_name": "l", "name": "a"}
    put(ch_a, "label", "choice_label", ref_ok=False)
    if rng.random() < 0.6:
        s = hostile(rng)
        ch_a["cf"] = s
        cells[("choice_extra", None)] = s
    ch_b = {"list_name": "l", "name": "b", "label": "B"} if not langs else {"list_name": "l", "name": "b", **{f"label::{l}": "B" for l in langs}}
    settings = {"form_id": "f1"}
    if Q1NAME != "q1":
        settings["namespaces"] = 'ex="http://example.com/x"'
    if rng.random() < 0.7:
        s = hostile(rng)
        settings["form_title"] = s
        cells[("title", None)] = s
    if rng.random() < 0.5:
        s = hostile(rng)
        settings["version"] = s
        cells[("version", None)] = s
    if rng.random() < 0.4:
        s = hostile(rng)
        settings["attribute::xyz"] = s
        cells[("settings_attr", None)] = s
    form = {"survey": [q0, q1, q2, g, inner, {"type": "end group"}], "choices": [ch_a, ch_b], "settings": [settings]}
    return form, cells, langs


def itext_value(root, tid, lang, form_attr=None):
    for tr in root.iter(xf.XF + "translation"):
        if tr.get("lang") == lang:
            for t in tr:
                if t.get("id") == tid:
                    for v in t:
                        if v.get("form") == form_attr:
                            return v
    return None


def rebuild(el):
    """element content with <output value=" /data/x "/> turned back into ${x}; None for element children other than output"""
    out = el.text or ""
    kids = list(el)
    for c in kids:
        if c.tag != xf.XF + "output":
            return None
        name = c.get("value", "").strip().split("/")[-1]
        out += "${" + name + "}" + (c.tail or "")
    n = len(kids) + (1 if el.text else 0) + sum(1 for c in kids if c.tail)
    if kids:
        # DetachableElement.writexml adds one space before a leading text node and one after the last child
        if el.text is not None and out.startswith(" "):
            out = out[1:]
        if out.endswith(" "):
            out = out[:-1]
    return out


def text_or_itext(root, el, lang, default_lang, kind):
    """el is a label/hint element: inline content or jr:itext reference -> recovered text for `lang`"""
    ref = el.get("ref")
    if ref is None:
        return rebuild(el)
    m = re.match(r"^jr:itext\('(.*)'\)$", ref)
    if not m:
        return None
    v = itext_value(root, m.group(1), lang if lang is not None else default_lang, "guidance" if kind == "guidance_hint" else None)
    return rebuild(v) if v is not None else None


def recover(root, key, lang, langs):
    """The text an XML parser finds at the place the cell `key` is documented to land."""
    X = xf.XF
    body = root.find(xf.H + "body")
    model = root.find(xf.H + "head").find(X + "model")
    dl = lang if lang is not None else "default"
    ctrl = next((c for c in body.iter() if c.get("ref") == "/data/" + Q1NAME), None)
    bind = next((b for b in model.iter(X + "bind") if b.get("nodeset") == "/data/" + Q1NAME), None)
    if key in ("label", "hint"):
        el = ctrl.find(X + key)
        return text_or_itext(root, el, lang, "default", key)
    if key == "guidance_hint":
        v = itext_value(root, "/data/" + Q1NAME + ":hint", dl, "guidance")
        return rebuild(v) if v is not None else None
    if key in ("constraint_message", "required_message"):
        attr = "{http://openrosa.org/javarosa}" + ("constraintMsg" if key == "constraint_message" else "requiredMsg")
        val = bind.get(attr)
        m = re.match(r"^jr:itext\('(.*)'\)$", val or "")
        if m:
            v = itext_value(root, m.group(1), dl)
            return ("text", rebuild(v)) if v is not None else None
        return ("attr", val)
    if key == "default":
        inst = model.find(X + "instance")
        node = inst[0].find(X + "q1" if Q1NAME == "q1" else "{http://example.com/x}q1")
        return node.text or ""
    if key == "appearance":
        return ("attr", ctrl.get("appearance"))
    if key == "bind_custom":
        return ("attr", bind.get("custom"))
    if key == "instance_custom":
        inst = model.find(X + "instance")
        return ("attr", inst[0].find(X + "q1" if Q1NAME == "q1" else "{http://example.com/x}q1").get("extra"))
    if key == "group_label":
        grp = next((c for c in body.iter(X + "group") if c.get("ref") == "/data/g"), None)
        return text_or_itext(root, grp.find(X + "label"), lang, "default", "label")
    if key in ("choice_label", "choice_extra"):
        inst = next((i for i in model.iter(X + "instance") if i.get("id") == "l"), None)
        item = inst[0][0]
        if key == "choice_extra":
            return item.find(X + "cf").text or ""
        lab = item.find(X + "label")
        if lab is not None:
            return lab.text or ""
        tid = item.find(X + "itextId").text
        v = itext_value(root, tid, dl)
        return rebuild(v) if v is not None else None
    if key == "title":
        return root.find(xf.H + "head").find(xf.H + "title").text or ""
    if key == "version":
        return ("attr", model.find(X + "instance")[0].get("version"))
    if key == "settings_attr":
        return ("attr", model.find(X + "instance")[0].get("xyz"))
    return None


SURVEY_KEYS = {"label", "hint", "guidance_hint", "constraint_message", "required_message", "default", "appearance", "bind_custom",
               "instance_custom", "group_label"}


def expected_text(key, s):
    return norm_survey(s) if key in SURVEY_KEYS else smart(s)


def expected_alt(key, s):
    """smart-quote replacement is not applied to nested cells (e.g. attribute::x, bind::x): the unreplaced text is equally faithful"""
    return re.sub(r"( )+", " ", s.strip()) if key in SURVEY_KEYS else s


def _check_instance_text(seed, i):
    """user text mixed with two or more instance() expressions, the SAME text in two places of one form (two languages, or two rows) and the
    form converted twice in this process: every occurrence must show the user's words unchanged around one <output/> per expression"""
    rng = rng_for(seed, PID, "instance-text", i)
    words = ["District", "it has to survive unchanged", "a < b & c", "again", "50% of them", "x", "résumé"]
    n = rng.choice([2, 2, 3])
    exprs = [f"instance('dl9')/root/item[name = '{rng.choice('ab')}']/label" for _ in range(n)]
    special = rng.random() < 0.25
    if special:
        # a comparison or an ampersand inside the predicate: the characters XML escapes
        exprs[rng.randrange(n)] = rng.choice(["instance('dl9')/root/item[name < 'b']/label", "instance('dl9')/root/item[name = 'a' and 1 > 0]/label",
                                              "instance('dl9')/root/item[label = 'A&B' or name = 'a']/label"])
    # an expression runs up to the next white space, so the words after it start with a space
    segs = [("" if k == 0 else " ") + rng.choice(words) + rng.choice([": ", " ", " -- "]) for k in range(n)] + [rng.choice([" .", " end", ""])]
    txt = "".join(seg + e for seg, e in zip(segs, exprs)) + segs[-1]
    two_langs = rng.random() < 0.5
    survey = [{"type": "select_one dl9", "name": "pick", "label": "Pick"}]
    if two_langs:
        survey[0] = {"type": "select_one dl9", "name": "pick", "label::en": "Pick", "label::fr": "Choisir"}
        survey.append({"type": "note", "name": "n1", "label::en": txt, "label::fr": txt})
    else:
        survey += [{"type": "note", "name": "n1", "label": txt}, {"type": "note", "name": "n2", "label": txt}]
    form = {"survey": survey, "choices": [{"list_name": "dl9", "name": "a", "label": "A"}, {"list_name": "dl9", "name": "b", "label": "B"}]}
    want = []
    for seg, e in zip(segs, exprs):
        want += [("T", seg), ("O", e)]
    want.append(("T", segs[-1]))

    def canon(seq):
        out = []
        for k, v in seq:
            v = " ".join(v.split()) if k == "T" else v.replace(" ", "")
            if k == "T" and out and out[-1][0] == "T":
                out[-1] = ("T", (out[-1][1] + " " + v).strip())
            elif not (k == "T" and v == ""):
                out.append((k, v))
        return out
    for attempt in range(2):
        st, r = xf.convert_form(forms.as_dict(form))
        if st != "ok":
            return {"i": i, "skip": st, "err": str(r)[:200]} if st == "pyxerr" else {"i": i, "form": form, "what": f"conversion crashed on a text with {n} instance() expressions (attempt {attempt + 1}): {r!r}"[:600]}
        root = xf.lparse(r.xform)
        holders = [v for v in root.iter(xf.XF + "value") if v.getparent().get("id", "").endswith(("n1:label", "n2:label"))]
        holders += [e for e in root.iter(xf.XF + "label") if e.get("ref") is None and e.getparent().get("ref") in ("/data/n1", "/data/n2")]
        if len(holders) != 2:
            return {"i": i, "form": form, "what": f"expected the text in two places, found it in {len(holders)}", "xform": r.xform[:2500]}
        for h in holders:
            seq = [("T", h.text or "")]
            for c in h:
                seq.append(("O", c.get("value") or "") if isinstance(c.tag, str) and c.tag.endswith("output") else ("T", "<" + str(c.tag) + ">"))
                seq.append(("T", c.tail or ""))
            if canon(seq) != canon(want):
                esc = lambda t: t.replace("&", "&amp;").replace("<", "&lt;").replace(">", "&gt;")      # noqa: E731
                if special and canon(seq) == [(k, esc(v) if k == "O" else v) for k, v in canon(want)]:
                    return {"i": i, "form": form, "finding": F_TWICE,
                            "what": "an instance() expression holding <, > or & inside a label reaches the output value escaped twice (&amp;lt; for <): the text around it is intact"}
                return {"i": i, "form": form, "what": f"text with {n} instance() expressions not recovered (conversion {attempt + 1} in this process): got {canon(seq)} expected {canon(want)}"[:900],
                        "xform": r.xform[:2500]}
    return {"i": i, "ok": True, "n": 2, "refs": n, "key": hash(txt + str(two_langs))}


def _check(args):
    seed, i = args
    if i % 9 == 4:
        return _check_instance_text(seed, i)
    rng = rng_for(seed, PID, "oracle", i)
    form, cells, langs = build_form(rng)
    d = forms.as_dict(form)
    pp = rng.random() < 0.5
    st, r = xf.convert_form(d, pretty_print=pp)
    if st != "ok":
        return {"i": i, "skip": st, "err": str(r)[:200]}
    try:
        root = xf.lparse(r.xform)
    except Exception as e:
        return {"i": i, "form": form, "what": f"output does not parse: {e}", "xform": r.xform[:1500]}
    # dynamic defaults land in a setvalue, not in the instance: C10's business; skip that cell here
    from pyxform.utils import default_is_dynamic
    probs = []
    for (key, lang), s in cells.items():
        if key == "default" and default_is_dynamic(norm_survey(s), "string"):
            continue
        try:
            got = recover(root, key, lang, langs)
        except Exception as e:
            got = f"<<oracle could not locate: {e!r}>>"
        exp = expected_text(key, s)
        alt = expected_alt(key, s)
        if isinstance(got, tuple):
            kind, val = got
            if kind == "attr":
                exp, alt = norm_attr(exp), norm_attr(alt)
            got = val
        if got is None or got not in (exp, alt):
            # empty text nodes are legitimately absent
            if (got in (None, "")) and exp == "":
                continue
            probs.append({"cell": key, "lang": lang, "source": s, "expected": exp, "recovered": got})
    # shape: replacing every hostile cell by a plain word must not change the element/attribute skeleton
    plain_form = copy.deepcopy(form)
    for rows in plain_form.values():
        for row in rows:
            for k, v in list(row.items()):
                if any(v == s for s in cells.values()):
                    row[k] = "${q0} w" if "${q0}" in v else "w"
    st2, r2 = xf.convert_form(forms.as_dict(plain_form), pretty_print=pp)
    if st2 == "ok":
        def skel(e):
            return (e.tag, tuple(sorted(e.attrib)), tuple(skel(c) for c in e if isinstance(c.tag, str)))
        from pyxform.utils import default_is_dynamic as did
        dyn = any(k == "default" and did(norm_survey(s), "string") for (k, _), s in cells.items())
        if not dyn and skel(root) != skel(xf.lparse(r2.xform)):
            probs.append({"cell": "*", "what": "element/attribute skeleton changes with the text"})
    if probs:
        return {"i": i, "form": form, "what": "text not recovered: " + json.dumps(probs[:3], ensure_ascii=False)[:900], "xform": r.xform[:3000]}
    return {"i": i, "ok": True, "n": len(cells), "refs": sum(1 for s in cells.values() if "${q0}" in s),
            "key": hash(json.dumps(sorted(map(str, cells.items())), ensure_ascii=False))}


def oracle(seed, tier, searching=False):
    n = 500 if tier == "quick" else 8000
    if searching:
        n *= 3
    res = pmap(_check, [(seed, i) for i in range(n)])
    fails = [r for r in res if "what" in r]
    oks = [r for r in res if r.get("ok")]
    skips = {}
    for r in res:
        if "skip" in r:
            skips[r["err"][:60]] = skips.get(r["err"][:60], 0) + 1
    return {
        "evaluations": len(res),
        "distinct_nontrivial": len({r["key"] for r in oks if r["refs"] > 0}),
        "rule": "a template form with every text-bearing cell kind filled with adversarial strings (with and without ${q0}), "
                "0-2 languages, compact or pretty; each cell's text is recovered by lxml from its documented place and compared "
                "with the source after the documented normalisation; the element/attribute skeleton is compared with the same "
                "form holding plain words; non-trivial = at least one cell mixes text and a reference",
        "accepted": len(oks), "cells_checked": sum(r["n"] for r in oks), "skipped": skips,
        "failures": [{"input": {"form": f["form"], "case": f["i"]}, "what": f["what"], "observed": f.get("xform"), "finding": f.get("finding"),
                      "reproduce": "cd /verif && /venv/bin/python harness/check.py C06 --replay <this file>"} for f in fails],
        "samples": [{"oracle_case": r["i"], "cells": r["n"], "cells_with_refs": r["refs"]} for r in oks[:3]],
    }


F_TWICE = "F77-instance-expression-escaped-twice"
FINDING_INPUTS = {F_TWICE: {"survey": [{"type": "select_one dl9", "name": "pick", "label": "Pick"},
                                       {"type": "note", "name": "n1", "label": "Below b: instance('dl9')/root/item[name < 'b']/label"}],
                            "choices": [{"list_name": "dl9", "name": "a", "label": "A"}, {"list_name": "dl9", "name": "b", "label": "B"}]}}


def replay_finding(slug):
    form = FINDING_INPUTS.get(slug)
    if not form:
        return None
    st, r = xf.convert_form(forms.as_dict(form))
    if st != "ok":
        return None
    root = xf.lparse(r.xform)
    vals = [o.get("value") for o in root.iter(xf.XF + "output")]
    if any("&lt;" in (v or "") for v in vals):      # after parsing: the expression holds the five characters & l t ; instead of <
        return {"input": {"form": form}, "finding": slug, "what": f"output value after parsing: {vals[0]!r}; typed: instance('dl9')/root/item[name < 'b']/label"}
    return None


def replay(path: Path) -> int:
    print("replay: re-run `harness/check.py C06` with the recorded seed; the failing form is in the replay file")
    payload = json.loads(Path(path).read_text())
    st, r = xf.convert_form(forms.as_dict(payload["input"]["form"]))
    print(st)
    return 1
