"""C07 — every itext reference resolves in every language."""

from __future__ import annotations

import json
import re
from pathlib import Path

from common import cstr, clist, rng_for
from opbase import Op, pmap
import forms
import itextgen
import xf

PID = "C07"


def dump_store(sv):
    lines = []
    for lang, tr in sv._translations.items():
        for tid, content in tr.items():
            for form, v in content.items():
                if form == "type":
                    continue
                text = v["text"] if isinstance(v, dict) else v
                lines.append("\x01".join([lang, tid, form, text]))
    return "\x02".join(lines)


class ItextOp(Op):
    """_setup_translations + _setup_media + _add_empty_translations and the emitted references against Model/Itext.v"""
    name = "D.itext"
    imports = ["PX.Model.Itext"]
    fn = "fun p => itext_projection (fst p) (snd p)"
    in_ty = "(list N * list element)"
    n_quick, n_thorough = 300, 4000

    def generate(self, rng, n):
        from pyxform.builder import create_survey_element_from_dict
        from pyxform.errors import PyXFormError
        cases = []
        while len(cases) < n:
            dl = rng.choice(["default", "default", "en", "fr"])
            es = [itextgen.rand_element(rng, i) for i in range(rng.randint(1, 4))]
            es[0].update({"label": "zero", "hint": None, "guidance": None, "media": {}, "cmsg": None, "rmsg": None})
            sv = create_survey_element_from_dict({"type": "survey", "name": "data", "id_string": "x", "title": "x", "default_language": dl,
                                                  "children": [itextgen.element_json(e) for e in es]})
            try:
                dom = sv.xml()
            except PyXFormError:
                continue
            except Exception:
                continue
            store = dump_store(sv)
            root = xf.lparse(dom.toxml())
            refs = []
            X = xf.XF
            body = root.find(xf.H + "body")
            model = root.find(xf.H + "head").find(X + "model")
            binds = {b.get("nodeset"): b for b in model.iter(X + "bind")}
            for e in es:
                p = "/data/" + e["name"]
                ctrl = next(c for c in body if c.get("ref") == p)
                for tag in ("label", "hint"):
                    el = ctrl.find(X + tag)
                    if el is not None and el.get("ref"):
                        refs.append(re.match(r"jr:itext\('(.*)'\)", el.get("ref")).group(1))
                b = binds.get(p)
                for a in ("constraintMsg", "requiredMsg"):
                    v = b.get("{http://openrosa.org/javarosa}" + a) if b is not None else None
                    if v and v.startswith("jr:itext("):
                        refs.append(re.match(r"jr:itext\('(.*)'\)", v).group(1))
            exp = store + "\x00" + "\x02".join(refs)
            coq = f"({cstr(dl)}, {clist([itextgen.element_coq(e) for e in es], 'element')})"
            cases.append({"coq": coq, "expected": exp, "desc": {"default_language": dl, "elements": es}, "class": f"langs={len(sv._translations)}",
                          "nontrivial": len(sv._translations) > 1})
        return cases


def ops(tier):
    return [ItextOp()]


GUARD = "element_ok: no empty dicts / empty strings where a value is given (what sheets produce); choices: see finding F9"
MODELLED = ("get_translations, get_choice_content (facts), _setup_media, _add_empty_translations, needs_itext_ref / xml_label / xml_hint / message "
            "redirection (emitted references), Itemset.requires_itext (coq/Model/Itext.v). itext() serialisation, search() redirection and the "
            "default marking are decided on the implementation by the id-closure oracle")
ASSUMPTIONS = ["element names do not contain the text `guidance_hint` in the Coq model (the code is covered by the oracle for such names)"]


# ---- direct oracle: id closure on real convert() output ------------------------------------------------------
def audit(xform, default_language):
    root = xf.lparse(xform)
    X = xf.XF
    probs = []
    model = root.find(xf.H + "head").find(X + "model")
    itext = model.find(X + "itext")
    refs = set(re.findall(r"jr:itext\('([^']*)'\)", xform))
    item_ids = {e.text for e in root.iter(X + "itextId")}
    if itext is None:
        if refs or item_ids:
            probs.append(f"references {sorted(refs | item_ids)[:3]} but the form has no itext block")
        return probs, 0
    langs, per_lang = [], {}
    for tr in itext:
        l = tr.get("lang")
        if l in per_lang:
            probs.append(f"language {l!r} appears twice")
        langs.append(l)
        ids = [t.get("id") for t in tr]
        if len(set(ids)) != len(ids):
            probs.append(f"text id appears twice in {l!r}: {[i for i in set(ids) if ids.count(i) > 1][:3]}")
        per_lang[l] = set(ids)
    for l, ids in per_lang.items():
        for r in refs:
            if r not in ids:
                probs.append(f"jr:itext('{r}') has no text in translation {l!r}")
        for r in item_ids:
            if r not in ids:
                probs.append(f"itextId {r!r} has no text in translation {l!r}")
    allids = set().union(*per_lang.values()) if per_lang else set()
    for l, ids in per_lang.items():
        if ids != allids:
            probs.append(f"translation {l!r} lacks ids {sorted(allids - ids)[:3]}")
    defaults = [tr.get("lang") for tr in itext if tr.get("default") is not None]
    if default_language in per_lang:
        if defaults != [default_language]:
            probs.append(f"default language {default_language!r} is a translation but the marked defaults are {defaults}")
    elif len(defaults) > 1:
        probs.append(f"several translations marked default: {defaults}")
    return probs, len(refs | item_ids)


def classify(form, probs):
    """no listed finding is left for this property (F9 and F50 were repaired in /repo)"""
    return None


def _check(args):
    seed, i = args
    rng = rng_for(seed, PID, "oracle", i)
    prof = forms.Profile(adversarial=0.15, max_rows=rng.choice([3, 6, 10]), p_hint=0.6, p_media=0.3, p_logic=0.5, p_select=0.45, p_ref_in_label=0.3, p_choice_extra=0.1)
    g = forms.FormGen(rng, prof)
    if rng.random() < 0.3:
        g.langs = rng.choice([["en", "en-GB"], ["English", "English (en)"], ["fr", "fr_CA", "f"]])
    form = g.form()
    # sparse choices: drop a label here and there; share lists; search() selects
    for r in form.get("choices", []):
        if rng.random() < 0.06:
            for k in [k for k in r if k.startswith(("label", "media"))]:
                del r[k]
    if rng.random() < 0.15:
        for r in form["survey"]:
            if r.get("type", "").startswith(("select_one ", "select one ")) and "or_other" not in r["type"] and not r.get("choice_filter"):
                r["appearance"] = "search('fruits')"
                break
    if rng.random() < 0.15:
        for r in form["survey"]:
            if r.get("name") and not r["type"].startswith(("begin", "end")) and rng.random() < 0.5:
                old = r["name"]
                new = rng.choice(["guidance_hint_q", "my_guidance_hint", "hint_guidance_hint"]) + str(rng.randrange(9))
                r["name"] = new
                for rows in form.values():
                    for row in rows:
                        for k, v in list(row.items()):
                            if isinstance(v, str) and "${" + old + "}" in v:
                                row[k] = v.replace("${" + old + "}", "${" + new + "}")
                break
    if rng.random() < 0.25:
        qs = [r for r in form["survey"] if r.get("name") and not r.get("type", "").startswith(("begin", "end"))]
        if len(qs) >= 2:
            a, b = rng.sample(qs, 2)
            a["no_app_error_string"] = rng.choice(["install the app ${%s}" % b["name"], "plain message"])
    if i % 3 == 1:
        forms.add_exotics(rng_for(seed, PID, "exotic", i), form, ["calc_msgs", "calc_msgs", "legacy_hint", "search", "osm"], p=0.5)
    dl = (form.get("settings") or [{}])[0].get("default_language", "default")
    st, r = xf.convert_form(forms.as_dict(form))
    if st != "ok":
        return {"i": i, "skip": st}
    if i % 4 == 2:
        # the same Survey object rendered again after a translated question was added through the element API
        from pyxform.builder import create_survey_element_from_dict as _mk
        langs, _ = forms.form_langs(form)
        tr = (lambda t: {lg: f"{t} {lg[:2]}" for lg in langs}) if langs else (lambda t: t)
        try:
            sv = r._survey
            sv.add_child(_mk({"type": "integer", "name": "added_q9", "label": tr("Age"), "hint": tr("In years"),
                              "bind": {"constraint": ". < 150", "jr:constraintMsg": tr("Too old")}}))
            x3 = sv.to_xml(validate=False, pretty_print=False)
        except Exception:
            x3 = None
        if x3:
            probs3, _ = audit(x3, dl)
            if probs3 and not classify(form, probs3):
                return {"i": i, "form": form, "what": "after add_child() of a translated question and a second to_xml(): " + "; ".join(probs3)[:500], "finding": None}
    # the JSON API: the same survey rebuilt from its intermediate dict, selects carrying `itemset` only
    if "search(" in json.dumps(form["survey"]):
        import copy
        from pyxform.builder import create_survey_element_from_dict
        j = copy.deepcopy(r._pyxform)

        def strip(d):
            if isinstance(d, dict):
                if d.get("itemset") and "list_name" in d:
                    del d["list_name"]
                for v in d.values():
                    strip(v)
            elif isinstance(d, list):
                for v in d:
                    strip(v)
        strip(j)
        try:
            x2 = create_survey_element_from_dict(j).to_xml(validate=False, pretty_print=False)
            probs2, _ = audit(x2, dl)
            if probs2 and not classify(form, probs2):
                return {"i": i, "form": form, "what": "survey rebuilt from its JSON (selects with `itemset` only): " + "; ".join(probs2)[:500], "finding": None}
        except Exception:
            pass
    try:
        probs, nrefs = audit(r.xform, dl)
    except Exception as e:
        return {"i": i, "form": form, "what": f"oracle could not audit: {e!r}"}
    if probs:
        return {"i": i, "form": form, "what": "; ".join(probs)[:700], "finding": classify(form, probs), "xform": r.xform[:2500]}
    return {"i": i, "ok": True, "key": hash(r.xform), "n": nrefs}


def oracle(seed, tier, searching=False):
    n = 600 if tier == "quick" else 10000
    if searching:
        n *= 3
    res = pmap(_check, [(seed, i) for i in range(n)])
    fails = [r for r in res if "what" in r]
    fails.sort(key=lambda r: r.get("finding") is not None)     # failures no listed finding explains come first
    oks = [r for r in res if r.get("ok")]
    return {
        "evaluations": len(res), "distinct_nontrivial": len({r["key"] for r in oks if r["n"] > 0}),
        "rule": "generated forms with 0-3 languages (incl. languages that are prefixes of one another), sparse translated labels/hints/guidance/messages/"
                "media on questions, groups and choices, shared lists, search() selects, names containing `guidance_hint`, calculate rows with translated or "
                "reference-bearing constraint/required messages, legacy types, osm; a quarter of the cases render the survey again after add_child() of a translated question; on the real XForm every "
                "jr:itext id and every itextId must exist in every translation, all translations must hold the same ids, no language or id twice, and "
                "the default language (when a translation) must be the only one marked default",
        "accepted": len(oks), "skipped": sum(1 for r in res if "skip" in r),
        "failures": [{"input": {"form": f["form"], "case": f["i"]}, "what": f["what"], "finding": f.get("finding"), "observed": f.get("xform"),
                      "reproduce": "cd /verif && /venv/bin/python harness/check.py C07 --replay <this file>"} for f in fails[:10]],
        "samples": [{"oracle_case": r["i"], "references": r["n"]} for r in oks[:3]],
    }


FINDING_INPUTS = {}


def replay_finding(slug):
    form = FINDING_INPUTS.get(slug)
    if not form:
        return None
    st, r = xf.convert_form(forms.as_dict(form))
    if st != "ok":
        return None
    probs, _ = audit(r.xform, "default")
    if probs and classify(form, probs) == slug:
        return {"input": form, "what": "; ".join(probs)[:300]}
    return None


def replay(path):
    payload = json.loads(Path(path).read_text())
    form = payload["input"]["form"]
    case_no = payload["input"].get("case")
    if case_no is not None:
        # the generated case (it may include an API sequence after the conversion): run it again on this tree
        res = _check((payload.get("seed", 20260930), case_no))
        if res.get("form") == form and "what" in res and not res.get("finding"):
            print(res["what"])
            print(f"VIOLATION property={PID} replay={path}")
            return 1
    st, r = xf.convert_form(forms.as_dict(form))
    if st == "ok":
        probs, _ = audit(r.xform, (form.get("settings") or [{}])[0].get("default_language", "default"))
        print(probs)
        if probs:
            print(f"VIOLATION property={PID} replay={path}")
            return 1
    return 0
