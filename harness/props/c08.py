"""C08 — each language shows exactly the text written for it."""

from __future__ import annotations

import json
import re
from pathlib import Path

from common import cstr, clist, rng_for
from opbase import Op, pmap
import forms
import xf
from props import c07

PID = "C08"
GUARD = "distinct headers per sheet (duplicates are rejected by pyxform); one column family at a time in the stage-B model"
MODELLED = ("process_row + merge_dicts for a translatable column family (coq/Model/RowMerge.v, the repaired code) and the translations store with "
            "its padding (coq/Model/Itext.v). Which text each place of the real XForm shows per language is decided on the implementation by the "
            "effective-text oracle")
ASSUMPTIONS = c07.ASSUMPTIONS


class FamilyOp(Op):
    """process_row for a label family in random column order against Model/RowMerge.v"""
    name = "B.process_row"
    imports = ["PX.Model.Itext", "PX.Model.RowMerge"]
    fn = ("fun p => match process_family (fst p) (snd p) with None => [78%N] | Some (VStr t) => 83%N :: t "
          "| Some (VDict d) => 68%N :: join [1%N] (map (fun kv => fst kv ++ [61%N] ++ snd kv) d) end")
    in_ty = "(list N * list (option (list N) * list N))"
    n_quick, n_thorough = 400, 4000

    def generate(self, rng, n):
        from pyxform.parsing.sheet_headers import process_row
        cases = []
        for i in range(n):
            dl = rng.choice(["default", "en", "fr"])
            langs = rng.sample(["en", "fr", "es", "default"], rng.randint(0, 3))
            cells = [(l, f"t_{l}") for l in langs]
            if rng.random() < 0.6:
                cells.append((None, "plain"))
            rng.shuffle(cells)
            if not cells:
                continue
            row = {("label" if l is None else f"label::{l}"): t for l, t in cells}
            hk = {h: (("label",) if h == "label" else ("label", h.split("::")[1])) for h in row}
            out = process_row("survey", row, hk, dl)
            v = out.get("label")
            exp = "N" if v is None else ("S" + v if isinstance(v, str) else "D" + "\x01".join(f"{k}={x}" for k, x in v.items()))
            coq = f"({cstr(dl)}, " + clist([f"({'None' if l is None else '(Some ' + cstr(l) + ')'}, {cstr(t)})" for l, t in cells], "(option (list N) * list N)") + ")"
            cases.append({"coq": coq, "expected": exp, "desc": {"default_language": dl, "cells": cells}, "class": exp[0], "nontrivial": len(cells) > 1})
        return cases


def ops(tier):
    return [FamilyOp(), c07.ItextOp()]


# ---- direct oracle: the effective text per (element, kind, language) -------------------------------------------
KINDS = {"label": None, "hint": None, "guidance_hint": "guidance"}
MEDIA_KINDS = {"image": ("image", "jr://images/"), "audio": ("audio", "jr://audio/"), "video": ("video", "jr://video/"), "big-image": ("big-image", "jr://images/")}


def cells_of(row, col, delim="::"):
    """{language or None: text} for one translatable column of a row"""
    out = {}
    for k, v in row.items():
        parts = [p.strip() for p in k.split(delim)]
        if "_".join(parts[0].split()).lower() == col and len(parts) <= 2:
            out[parts[1] if len(parts) == 2 else None] = v
    return out


def itext_value(root, tid, lang, form=None):
    return c07_value(root, tid, lang, form)


def c07_value(root, tid, lang, form):
    X = xf.XF
    for tr in root.iter(X + "translation"):
        if tr.get("lang") == lang:
            for t in tr:
                if t.get("id") == tid:
                    for v in t:
                        if v.get("form") == form:
                            return v
    return None


def text_of(el):
    """text with outputs abstracted"""
    if el is None:
        return None
    out = el.text or ""
    for c in el:
        out += "@" + (c.tail or "")
    return re.sub(r"\s+", " ", out).strip()


def norm_cell(s):
    return re.sub(r"\s+", " ", re.sub(r"\$\{[^}]*\}", "@", "".join({"‘": "'", "’": "'", "“": '"', "”": '"'}.get(c, c) for c in s))).strip()


def audit(form, xform, api_default_language=None):
    X = xf.XF
    root = xf.lparse(xform)
    model = root.find(xf.H + "head").find(X + "model")
    body = root.find(xf.H + "body")
    dl = (form.get("settings") or [{}])[0].get("default_language", api_default_language or "default")
    langs = [t.get("lang") for t in root.iter(X + "translation")]
    probs = []
    mentioned = set()
    for sheet in ("survey", "choices"):
        for row in form.get(sheet, []):
            for k in row:
                parts = [p.strip() for p in k.split("::")]
                base = "_".join(parts[0].split()).lower()
                if base == "media" and len(parts) >= 2:
                    parts = parts[1:]
                    base = parts[0]
                if base in ("label", "hint", "guidance_hint", "constraint_message", "required_message", "image", "audio", "video", "big-image") and len(parts) == 2:
                    mentioned.add(parts[1])
    for l in langs:
        if l not in mentioned and l != dl:
            probs.append(f"a translation was invented for language {l!r}, which no column mentions")
    for l in mentioned:
        if l not in langs:
            probs.append(f"language {l!r} is named in a column but has no translation")
    # walk questions and groups
    path = ["data"]
    name_setting = (form.get("settings") or [{}])[0].get("name")
    if name_setting:
        path = [name_setting]
    for row in form["survey"]:
        t = " ".join(row.get("type", "").split())
        if re.match(r"^end[ _](group|repeat)$", t):
            path.pop()
            continue
        if not row.get("name"):
            continue
        p = "/" + "/".join([*path, row["name"]])
        if re.match(r"^begin[ _](group|repeat)$", t):
            path.append(row["name"])
        ctrl = next((e for e in body.iter() if isinstance(e.tag, str) and e.get("ref") == p), None)
        if ctrl is None:
            continue
        for kind, form_attr in KINDS.items():
            cells = cells_of(row, kind)
            if not cells:
                continue
            tag = "hint" if kind == "guidance_hint" else kind
            el = ctrl.find(X + tag)
            if el is None:
                probs.append(f"{p}: no {tag} element although the row has a {kind} cell")
                continue
            ref = el.get("ref")
            if ref is None:
                if kind == "guidance_hint":
                    probs.append(f"{p}: guidance hint without an itext reference")
                    continue
                shown = text_of(el)
                want = cells.get(None, cells.get(dl))
                if want is None or shown != norm_cell(want):
                    probs.append(f"{p}: inline {kind} shows {shown!r}, the cells are {cells}")
                continue
            tid = re.match(r"jr:itext\('(.*)'\)", ref).group(1)
            for l in langs:
                v = c07_value(root, tid, l, form_attr)
                shown = text_of(v)
                want = cells.get(l)
                if want is None and l == dl:
                    want = cells.get(None)
                if want is None and l == "default" and None in cells and dl not in langs:
                    want = cells.get(None)
                exp = norm_cell(want) if want is not None else "-"
                if shown != exp:
                    probs.append(f"{p}: language {l!r} is shown {shown!r} for {kind}, the sheet says {exp!r} (cells {cells})")
        # media written for a language must be shown to that language (questions, groups and repeats alike)
        lab = ctrl.find(X + "label")
        lref = lab.get("ref") if lab is not None else None
        for kind, (form_attr, prefix) in MEDIA_KINDS.items():
            cells = dict(cells_of(row, kind))
            for k, v in row.items():
                parts = [q.strip() for q in k.split("::")]
                if parts[0].lower() == "media" and len(parts) in (2, 3) and parts[1] == kind:
                    cells[parts[2] if len(parts) == 3 else None] = v
            if not cells:
                continue
            if lref is None:
                # media and no label element to carry it (a group with an image and no words): shown to nobody
                if lab is None or not (lab.text or "").strip():
                    probs.append(f"{p}: the {kind} cell(s) {cells} are referenced by nothing: the control has no label element that carries media")
                continue
            tid = re.match(r"jr:itext\('(.*)'\)", lref).group(1)
            for l in langs:
                want = cells.get(l)
                if want is None and (l == dl or (l == "default" and dl not in langs)):
                    want = cells.get(None)
                if want is None:
                    continue
                v = c07_value(root, tid, l, form_attr)
                if v is None or (v.text or "") != prefix + want.strip():
                    probs.append(f"{p}: language {l!r} is not shown the {kind} {want!r} written for it (found {None if v is None else v.text!r})")
    # choices
    lists = {}
    for row in form.get("choices", []):
        lists.setdefault(row.get("list_name"), []).append(row)
    # selects using search(): in-line items in the body, one per choice row, each showing that row's own cells
    for row in form["survey"]:
        t = " ".join(row.get("type", "").split())
        if "search(" not in (row.get("appearance") or "") or not t.startswith(("select_one ", "select_multiple ", "select one ", "select1 ", "select all that apply ")):
            continue
        lst = t.split()[-1]
        ctrl = next((e for e in body.iter() if isinstance(e.tag, str) and (e.get("ref") or "").endswith("/" + row["name"])), None)
        if ctrl is None or lst not in lists:
            continue
        items = [e for e in ctrl if isinstance(e.tag, str) and e.tag == X + "item"]
        if len(items) != len(lists[lst]):
            probs.append(f"search() select {row['name']}: {len(items)} in-line items for {len(lists[lst])} choice rows")
            continue
        list_needs_itext = any(any(len(k.split("::")) == 2 and "_".join(k.split("::")[0].split()).lower() in ("label", "image", "audio", "video", "big-image") or
                                   k.split("::")[0].strip().lower() in ("image", "audio", "video", "big-image", "media") for k in c) for c in lists[lst])
        for idx, (item, crow) in enumerate(zip(items, lists[lst])):
            cells = cells_of(crow, "label")
            lab = item.find(X + "label")
            if lab is None or not cells:
                continue
            ref = lab.get("ref")
            if ref is None:
                if list_needs_itext and langs:
                    probs.append(f"search() select {row['name']} item {idx} ({crow.get('name')}): label in-lined although the list is translated (cells {cells})")
                else:
                    want = cells.get(None, cells.get(dl))
                    if want is not None and text_of(lab) != norm_cell(want):      # whatever the question itself shows (it may have a hint only)
                        probs.append(f"search() select {row['name']} item {idx} ({crow.get('name')}): in-line label {text_of(lab)!r}, the cell says {want!r}")
                continue
            tid = re.match(r"jr:itext\('(.*)'\)", ref).group(1)
            for l in langs:
                shown = text_of(c07_value(root, tid, l, None))
                want = cells.get(l)
                if want is None and l == dl:
                    want = cells.get(None)
                if want is None and l == "default" and None in cells and dl not in langs:
                    want = cells.get(None)
                exp = norm_cell(want) if want is not None else "-"
                if shown != exp:
                    probs.append(f"search() select {row['name']} item {idx} ({crow.get('name')}): language {l!r} is shown {shown!r}, the sheet says {exp!r} (cells {cells})")
    for inst in model.iter(X + "instance"):
        lst = inst.get("id")
        if lst not in lists or not len(inst):
            continue
        for idx, item in enumerate(inst[0]):
            if idx >= len(lists[lst]):
                break
            row = lists[lst][idx]
            cells = cells_of(row, "label")
            iid = item.find(X + "itextId")
            if iid is None:
                lab = item.find(X + "label")
                want = cells.get(None, cells.get(dl))
                if lab is not None and want is not None and (lab.text or "") != "".join({"‘": "'", "’": "'", "“": '"', "”": '"'}.get(c, c) for c in want):
                    probs.append(f"choice {lst}[{idx}]: inline label {lab.text!r}, the cell says {want!r}")
                continue
            # a choice with no text at all in a list that uses itext is shown the placeholder in every language (defect F9 of C07, repaired:
            # the skip that stood here while it was a finding is gone); a choice with media only has no label text to show
            if not cells and any(k.lower().startswith(("media", "image", "audio", "video", "big-image")) for k in row):
                continue
            for l in langs:
                v = c07_value(root, iid.text, l, None)
                shown = text_of(v)
                want = cells.get(l)
                if want is None and l == dl:
                    want = cells.get(None)
                if want is None and l == "default" and None in cells and dl not in langs:
                    want = cells.get(None)
                exp = norm_cell(want) if want is not None else "-"
                if shown != exp:
                    probs.append(f"choice {lst}[{idx}] ({row.get('name')}): language {l!r} is shown {shown!r}, the sheet says {exp!r} (cells {cells})")
    return probs


def _check(args):
    seed, i = args
    rng = rng_for(seed, PID, "oracle", i)
    prof = forms.Profile(adversarial=0.1, max_rows=rng.choice([3, 6, 10]), p_hint=0.6, p_media=0.0, p_logic=0.1, p_select=0.4, p_ref_in_label=0.2, p_choice_extra=0.0, p_or_other=0.0)
    g = forms.FormGen(rng, prof)
    g.delim = "::"
    form = g.form()
    # shuffle the column order of some rows (column order must not matter)
    for sheet in ("survey", "choices"):
        for r in form.get(sheet, []):
            if rng.random() < 0.4:
                items = list(r.items())
                rng.shuffle(items)
                r.clear()
                r.update(items)
    if rng.random() < 0.3:
        for r in form.get("choices", []):
            if rng.random() < 0.2:
                for k in [k for k in r if k.startswith("label")]:
                    del r[k]
    if i % 5 == 4 and len(form.get("choices") or []) >= 2:
        # a list that needs itext (one choice has an image) in which another choice has neither label nor media: the placeholder is shown, in a
        # form of one language as in a form of several
        rl = rng_for(seed, PID, "bare-choice", i)
        ln = rl.choice(sorted({c.get("list_name") for c in form["choices"] if c.get("list_name")}))
        rows_ = [c for c in form["choices"] if c.get("list_name") == ln]
        if len(rows_) >= 2:
            a_, b_ = rl.sample(rows_, 2)
            a_[rl.choice(["image", "media::image"])] = "pic.png"
            for k in [k for k in b_ if k.split("::")[0].strip().lower() in ("label", "image", "audio", "video", "media", "big-image")]:
                del b_[k]
    if i % 3 == 0:
        forms.add_exotics(rng_for(seed, PID, "exotic", i), form, ["search", "search", "legacy_hint", "group_media", "group_media"], p=0.6)
    api_dl = None
    settings = (form.get("settings") or [{}])[0]
    if i % 4 == 1 and g.langs:
        # the default language given as an argument of convert() instead of a settings cell
        api_dl = settings.pop("default_language", None) or rng.choice(g.langs)
        if form.get("settings") == [{}]:
            del form["settings"]
    st, r = xf.convert_form(forms.as_dict(form), **({"default_language": api_dl} if api_dl else {}))
    if st != "ok":
        return {"i": i, "skip": st + ":" + str(r)[:50]}
    try:
        probs = audit(form, r.xform, api_dl)
    except Exception as e:
        return {"i": i, "form": form, "what": f"oracle could not audit: {e!r}"}
    if probs:
        return {"i": i, "form": form, "api_default_language": api_dl, "what": "; ".join(probs)[:900], "xform": r.xform[:2500]}
    return {"i": i, "ok": True, "key": hash(r.xform), "n": len(g.langs)}


def oracle(seed, tier, searching=False):
    n = 600 if tier == "quick" else 10000
    if searching:
        n *= 3
    res = pmap(_check, [(seed, i) for i in range(n)])
    fails = [r for r in res if "what" in r]
    oks = [r for r in res if r.get("ok")]
    skips = {}
    for r in res:
        if "skip" in r:
            skips[r["skip"][:50]] = skips.get(r["skip"][:50], 0) + 1
    return {
        "evaluations": len(res), "distinct_nontrivial": len({r["key"] for r in oks if r["n"] > 0}),
        "rule": "generated forms with 0-3 languages, default_language settings, unsuffixed and suffixed cells mixed, shuffled column order, sparse "
                "choice labels, search() selects (in-line items), the default language given as an argument of convert() instead of a settings cell; for every question/group label, hint, guidance hint and every choice label, and every translation of the real XForm, "
                "the text shown (itext value or inline text, outputs abstracted) must equal the sheet's cell for that language (unsuffixed = default "
                "language) or '-'; languages = those mentioned; non-trivial = at least one language",
        "accepted": len(oks), "skipped": skips,
        "failures": [{"input": {"form": f["form"], "case": f["i"], "api_default_language": f.get("api_default_language")}, "what": f["what"], "observed": f.get("xform"),
                      "reproduce": "cd /verif && /venv/bin/python harness/check.py C08 --replay <this file>"} for f in fails[:8]],
        "samples": [{"oracle_case": r["i"], "languages": r["n"]} for r in oks[:3]],
    }


def replay_finding(slug):
    return None


def replay(path: Path) -> int:
    payload = json.loads(Path(path).read_text())
    form = payload["input"]["form"]
    api_dl = payload["input"].get("api_default_language")
    st, r = xf.convert_form(forms.as_dict(form), **({"default_language": api_dl} if api_dl else {}))
    if st == "ok":
        probs = audit(form, r.xform, api_dl)
        print(probs)
        if probs:
            print(f"VIOLATION property={PID} replay={path}")
            return 1
    return 0
