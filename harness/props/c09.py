"""C09 — choice lists survive intact and selects are wired to their own list."""

from __future__ import annotations

import csv
import io
import json
import os
import re
import types
from pathlib import Path

from common import cstr, clist, cbool, rng_for
from opbase import Op, pmap
import forms
import xf

PID = "C09"
GUARD = ("names of lists, files and extra columns are XML names without quotes (C01 findings F1-F3 cover the rest); choice_filter and seed "
         "references point at a top-level question (reference resolution is C03's subject)")
MODELLED = ("Survey._generate_static_instances, the URI templates and the de-duplication loop of Survey._generate_instances, "
            "MultipleChoiceQuestion/InputQuestion.build_xml (nodeset, value/label refs, query), os.path.splitext and "
            "utils.external_choices_to_csv + csv.writer(QUOTE_ALL) (coq/Model/Choices.v; the f-string templates and constants are regenerated "
            "from /repo into coq/Gen/Choices.v on every run). Grouping of sheet rows by list name, or_other, search() rendering, from-repeat "
            "itemsets and has_external_choices are decided on the implementation by the direct oracle")
ASSUMPTIONS = ["csv.writer/csv.reader behave as RFC 4180 for fully quoted fields (tied by op X.csv_parse)",
               "posixpath.splitext (tied by op D.splitext)"]

EXTRA_COLS = ["cf", "geometry", "pop", "x-y", "État"]


def _pairs(d):
    return clist([f"({cstr(k)}, {cstr(v)})" for k, v in d], "(list N * list N)")


def _opt(s):
    return "None" if s is None else f"(Some {cstr(s)})"


class SplitextOp(Op):
    name = "D.splitext"
    imports = ["PX.Model.Choices"]
    fn = "fun p => let '(a, b) := splitext p in a ++ [1%N] ++ b"
    n_quick, n_thorough = 300, 3000

    def generate(self, rng, n):
        cases = []
        for _ in range(n):
            parts = [rng.choice(["", "a", "cities", ".", "..", ".hidden", "x.y", "csv", ".csv", "file.xml", "d/e", "/", "é", "a.b.c", "geo.geojson"])
                     for _ in range(rng.randint(1, 4))]
            p = rng.choice(["", "/", "."]).join(parts)
            a, b = os.path.splitext(p)
            cases.append({"coq": cstr(p), "expected": a + "\x01" + b, "desc": p, "class": "ext" if b else "noext", "nontrivial": bool(b)})
        return cases


def gen_choices(rng, translated=None):
    n = rng.choice([1, 2, 3, 5, 12])
    translated = rng.random() < 0.3 if translated is None else translated
    cols = [c for c in EXTRA_COLS if rng.random() < 0.4]
    out = []
    for i in range(n):
        c = {"name": rng.choice(["a", "b", "x y", "<&>", "é", f"n{i}"])}
        r = rng.random()
        if translated and r < 0.8:
            c["label"] = {"en": f"L{i}", "fr": f"M{i}"}
        elif r < 0.9:
            c["label"] = rng.choice(["Yes", "a & b", "<b>", "  spaced ", "q\"uote", f"lab {i}"])
        for col in cols:
            if rng.random() < 0.6:
                c[col] = rng.choice(["1", "x", "a<b", "&amp;", "é"])
        if rng.random() < 0.15:
            c["sms_option"] = rng.choice(["s", "1"])
        out.append(c)
    return out


class StaticInstanceOp(Op):
    name = "D.static_instance"
    imports = ["PX.Model.Dom", "PX.Model.Choices"]
    fn = ("fun p => let '(ln, req, cs) := p in compact (static_instance ln (mkItemset req false "
          "(map (fun c => let '(n, l, e, s) := c in mkChoice n l e s) cs)))")
    in_ty = "(list N * bool * list (list N * option (list N) * list (list N * list N) * option (list N)))"
    n_quick, n_thorough = 250, 2500

    def generate(self, rng, n):
        from pyxform.question import Itemset
        from pyxform.survey import Survey
        cases = []
        for _ in range(n):
            ln = rng.choice(["l", "cities", "yes_no", "list-1"])
            cs = gen_choices(rng)
            its = Itemset(name=ln, choices=[dict(c) for c in cs])
            xml = Survey._generate_static_instances(None, list_name=ln, itemset=its).instance.toxml()
            req = any(isinstance(c.get("label"), dict) for c in cs)          # computed here, not read from pyxform
            rows = []
            for c in cs:
                extra = [(k, v) for k, v in c.items() if k not in ("name", "label", "sms_option")]
                lab = c.get("label") if isinstance(c.get("label"), str) else None
                rows.append(f"({cstr(c['name'])}, {_opt(lab)}, {_pairs(extra)}, {_opt(c.get('sms_option'))})")
            coq = f"({cstr(ln)}, {cbool(req)}, {clist(rows, '(list N * option (list N) * list (list N * list N) * option (list N))')})"
            cases.append({"coq": coq, "expected": xml, "desc": {"list": ln, "choices": cs}, "class": f"n={len(cs)},itext={req}", "nontrivial": len(cs) > 1})
        return cases


def _registry_form(rng):
    """elements in document order with the sources they name; returns (survey rows, choices rows, model elems, model choices)"""
    files = ["fruits", "cities", "l1", "data-x"]
    lists = ["l1", "l2", "cities"]
    rows = [{"type": "text", "name": "q0", "label": "Q"}]
    elems = [dict(pull=[], file=None, ext=None, last=False)]
    used_lists = []
    k = 0
    for _ in range(rng.randint(1, 6)):
        k += 1
        kind = rng.choice(["pull", "pull", "file", "ext", "select", "last", "gpull"])
        nm = f"e{k}"
        if kind == "pull":
            e = dict(pull=[], file=None, ext=None, last=False)
            row = {"type": "text", "name": nm, "label": "P"}
            cells = {}
            for col, key in (("calculation", "calculate"), ("constraint", "constraint"), ("read_only", "readonly"), ("relevant", "relevant"), ("required", "required")):
                if rng.random() < 0.35:
                    f = rng.choice(files)
                    q = rng.choice(["'", '"'])
                    sp = rng.choice(["", " "])
                    sp0 = rng.choice(["", "", " "])      # white space before the parenthesis: the same call
                    cells[key] = (col, f"pulldata{sp0}({sp}{q}{f}{q}, 'a', 'b', ${{q0}}) = 1" if col != "calculation" else f"pulldata{sp0}({q}{f}{q}, 'a', 'b', ${{q0}})", f)
            if "calculate" in cells:
                row["type"] = "calculate"
                row.pop("label")
            for key in sorted(cells):
                col, text, f = cells[key]
                if row["type"] == "calculate" and col in ("constraint", "required", "read_only"):
                    continue
                row[col] = text
                e["pull"].append(f)
            if row["type"] == "text" and rng.random() < 0.3:
                f = rng.choice(files)
                row["default"] = f"pulldata('{f}', 'a', 'b', 'c')"
                e["pull"].append(f)
            rows.append(row)
            elems.append(e)
        elif kind == "gpull":
            f = rng.choice(files)
            rows.append({"type": "begin group", "name": nm, "label": "G", "relevant": f"pulldata('{f}', 'a', 'b', ${{q0}}) = 1"})
            rows.append({"type": "text", "name": nm + "c", "label": "C"})
            rows.append({"type": "end group"})
            elems.append(dict(pull=[f], file=None, ext=None, last=False))
            elems.append(dict(pull=[], file=None, ext=None, last=False))
        elif kind == "file":
            f = rng.choice(files) + rng.choice([".csv", ".xml", ".geojson"])
            rows.append({"type": f"{rng.choice(['select_one_from_file', 'select_multiple_from_file'])} {f}", "name": nm, "label": "F"})
            elems.append(dict(pull=[], file=f, ext=None, last=False))
        elif kind == "ext":
            t = rng.choice(["xml-external", "csv-external"])
            name = rng.choice(files)
            if any(r.get("name") == name for r in rows):
                rows.append({"type": "begin group", "name": nm, "label": "G"})
                rows.append({"type": t, "name": name})
                rows.append({"type": "end group"})
                elems.append(dict(pull=[], file=None, ext=None, last=False))
            else:
                rows.append({"type": t, "name": name})
            elems.append(dict(pull=[], file=None, ext=(name, t), last=False))
        elif kind == "select":
            lst = rng.choice(lists)
            if lst not in used_lists:
                used_lists.append(lst)
            rows.append({"type": f"select_one {lst}", "name": nm, "label": "S"})
            elems.append(dict(pull=[], file=lst, ext=None, last=False))
        else:
            row = {"type": "text", "name": nm, "label": "L"}
            where = rng.choice(["default", "constraint", "relevant", "required", "calculation", "none"])
            ls = {"d": False, "f": False, "b": []}
            if where == "default":
                row["default"] = "${last-saved#q0}"
                ls["d"] = True
            elif where == "calculation":
                row = {"type": "calculate", "name": nm, "calculation": "${last-saved#q0} + 1"}
                ls["b"].append(("calculate", True))
            elif where != "none":
                row[where] = ". != ${last-saved#q0}" if where != "required" else "${last-saved#q0} = 'x'"
                ls["b"].append((where, True))
            if where not in ("default", "calculation") and rng.random() < 0.5:
                row["default"] = rng.choice(["abc", "0"])           # a static default beside the reference
            if rng.random() < 0.3 and "calculation" not in row:
                row["constraint_message"] = "see ${last-saved#q0}"   # not a cell that declares the instance
            rows.append(row)
            elems.append(dict(pull=[], file=None, ext=None, last=ls))
    if rng.random() < 0.3:
        extra = rng.choice(lists)
        if extra not in used_lists:
            used_lists.append(extra)           # an unused list is still declared
    choices = [{"list_name": lst, "name": "a", "label": "A"} for lst in used_lists]
    return rows, choices, elems, used_lists


def _last(ls):
    if ls is False or ls is True:
        return cbool(ls)
    return (f"(mentions_last_saved {cbool(ls['d'])} {cbool(ls['f'])} "
            + clist([f"({cstr(k)}, {cbool(v)})" for k, v in ls["b"]], "(list N * bool)") + ")")


class RegistryOp(Op):
    """Survey._generate_instances on real forms against instances_of"""
    name = "D.instances"
    imports = ["PX.Model.Choices"]
    fn = ("fun p => match instances_of (map (fun e => let '(a, b, c, d) := e in mkElem a b c d) (fst p)) "
          "(map (fun n => (n, mkItemset false false [])) (snd p)) with "
          "| RegDuplicateExternal => [69%N] | RegClash => [68%N] "
          "| RegOk l => 79%N :: join [1%N] (map (fun i => i_name i ++ [61%N] ++ match i_src i with Some s => s | None => [45%N] end) l) end")
    in_ty = "(list (list (list N) * option (list N) * option (list N * list N) * bool) * list (list N))"
    n_quick, n_thorough = 300, 3000

    def generate(self, rng, n):
        cases = []
        for _ in range(n):
            rows, choices, elems, lists = _registry_form(rng)
            form = {"survey": rows}
            if choices:
                form["choices"] = choices
            st, r = xf.convert_form(forms.as_dict(form))
            if st == "ok":
                root = xf.lparse(r.xform)
                insts = list(root.iter(xf.XF + "instance"))[1:]
                exp = "O" + "\x01".join(f"{i.get('id')}={i.get('src') or '-'}" for i in insts)
            elif st == "pyxerr" and "Instance names must be unique" in str(r):
                exp = "E"
            elif st == "pyxerr" and "The same instance id will be generated" in str(r):
                exp = "D"
            else:
                continue
            els = clist([f"({clist([cstr(x) for x in e['pull']], '(list N)')}, {_opt(e['file'])}, "
                         + ("None" if e["ext"] is None else f"(Some ({cstr(e['ext'][0])}, {cstr(e['ext'][1])}))") + ", " + _last(e["last"]) + ")" for e in elems],
                        "(list (list N) * option (list N) * option (list N * list N) * bool)")
            coq = f"({els}, {clist([cstr(x) for x in lists], '(list N)')})"
            cases.append({"coq": coq, "expected": exp, "desc": {"survey": rows, "choices": choices}, "class": exp[0], "nontrivial": exp[0] == "O" and exp.count("=") > 1})
        return cases


class ItemsetOp(Op):
    """itemset nodeset and refs of a real select against itemset_xml"""
    name = "D.itemset_xml"
    imports = ["PX.Model.Choices"]
    fn = "fun p => let '(its, req, f, params, seed) := p in let '(ns, v, l) := itemset_xml its req f params seed in ns ++ [1%N] ++ v ++ [1%N] ++ l"
    in_ty = "(list N * bool * list N * list (list N * list N) * list N)"
    n_quick, n_thorough = 250, 2500

    def generate(self, rng, n):
        cases = []
        for _ in range(n):
            from_file = rng.random() < 0.4
            params = {}
            translated = False
            if from_file:
                its = rng.choice(["cities", "a.b", "data-x"]) + rng.choice([".csv", ".xml", ".geojson"])
                typ = f"select_one_from_file {its}"
                if rng.random() < 0.3:
                    params["value"] = rng.choice(["id", "code", "val-x"])
                if rng.random() < 0.3:
                    params["label"] = rng.choice(["title", "name", "lbl"])
            else:
                its = rng.choice(["l1", "cities", "yes_no", "fruits.v2", "a.b.c", "x.csvx"])
                typ = f"{rng.choice(['select_one', 'select_multiple', 'rank'])} {its}"
                translated = rng.random() < 0.4
            flt = rng.choice(["", "", "true()", "cf = 'x'", "cf=${q0}", "name != '' and pop > 3", "a[1] = 2"])
            if "rank" in typ and flt:
                flt = flt
            if rng.random() < 0.4:
                params["randomize"] = rng.choice(["true", "true", "false"])
                if params["randomize"] == "true" and rng.random() < 0.6 or (params["randomize"] == "false" and rng.random() < 0.2):
                    params["seed"] = rng.choice(["42", "1.5", "${q0}", "-3"])
            row = {"type": typ, "name": "s", "label": "S"}
            if flt:
                row["choice_filter"] = flt
            if params:
                items = list(params.items())
                rng.shuffle(items)
                row["parameters"] = rng.choice([" ", ", ", ";"]).join(f"{k}={v}" for k, v in items)
            form = {"survey": [{"type": "text", "name": "q0", "label": "Q"}, row]}
            if not from_file:
                ch = {"list_name": its, "name": "a"}
                if translated:
                    ch["label::en"] = "A"
                else:
                    ch["label"] = "A"
                form["choices"] = [ch, {**ch, "name": "b"}]
            st, r = xf.convert_form(forms.as_dict(form))
            if st != "ok":
                continue
            root = xf.lparse(r.xform)
            isets = list(root.iter(xf.XF + "itemset"))
            if len(isets) != 1:
                continue
            i = isets[0]
            exp = "\x01".join([i.get("nodeset"), i.find(xf.XF + "value").get("ref"), i.find(xf.XF + "label").get("ref")])
            coq = f"({cstr(its)}, {cbool(translated)}, {cstr(flt.replace('${q0}', ' /data/q0 '))}, {_pairs(params.items())}, {cstr('/data/q0')})"
            cases.append({"coq": coq, "expected": exp, "desc": {"row": row, "translated": translated},
                          "class": ("file" if from_file else "list") + ("+rand" if params.get("randomize") == "true" else "") + ("+filter" if flt else ""),
                          "nontrivial": bool(flt or params)})
        return cases


def _ext_rows(rng):
    ln = rng.choice(["list_name", "list_name", "list name"])      # both spellings of the list column are accepted; the sheet is written out as it is
    hdr = [ln, "name", "label", *[c for c in ["state", "county", "x y"] if rng.random() < 0.6]]
    rows = []
    for i in range(rng.randint(1, 6)):
        row = {}
        for h in hdr:
            if h == ln or rng.random() < 0.7:
                row[h] = "cities" if h == ln else rng.choice(["a", "b,c", 'q"t', "line\nbreak", "é", " lead", "x;y", "'", f"v{i}"])
        rows.append(row)
    return hdr, rows


class CsvOp(Op):
    name = "X.itemsets_csv"
    imports = ["PX.Model.Choices"]
    fn = "fun p => itemsets_csv (fst p) (snd p)"
    in_ty = "(option (list (list N)) * list (list (list N * list N)))"
    n_quick, n_thorough = 250, 2500

    def generate(self, rng, n):
        from pyxform.utils import external_choices_to_csv
        cases = []
        for _ in range(n):
            hdr, rows = _ext_rows(rng)
            explicit = rng.random() < 0.7
            wb = types.SimpleNamespace(external_choices=[dict(r) for r in rows], external_choices_header=[{h: None for h in hdr}] if explicit else None)
            out = external_choices_to_csv(wb, [])
            coq = ("(" + (f"Some {clist([cstr(h) for h in hdr], '(list N)')}" if explicit else "None") + ", "
                   + clist([_pairs(r.items()) for r in rows], "(list (list N * list N))") + ")")
            sparse = any(len(r) < len(hdr) for r in rows)
            cases.append({"coq": coq, "expected": out, "desc": {"header": hdr if explicit else None, "rows": rows}, "class": "sparse" if sparse else "full", "nontrivial": sparse})
        return cases


class CsvParseOp(Op):
    """the Spec reader against csv.reader on what csv.writer(QUOTE_ALL) produces"""
    name = "X.csv_parse"
    imports = ["PX.Spec.Csv"]
    fn = "fun s => match parse_csv s with None => [78%N] | Some t => join [2%N] (map (join [1%N]) t) end"
    n_quick, n_thorough = 200, 2000

    def generate(self, rng, n):
        cases = []
        for _ in range(n):
            t = [[rng.choice(["", "a", "b,c", 'q"t', '""', "line\r\nbreak", "\n", "é", "x"]) for _ in range(rng.randint(1, 4))] for _ in range(rng.randint(1, 4))]
            sio = io.StringIO(newline="")
            csv.writer(sio, quoting=csv.QUOTE_ALL).writerows(t)
            s = sio.getvalue()
            back = list(csv.reader(io.StringIO(s, newline="")))
            cases.append({"coq": cstr(s), "expected": "\x02".join("\x01".join(r) for r in back), "desc": t, "class": "csv", "nontrivial": len(t) > 1})
        return cases


class SearchDetectOp(Op):
    """Survey._redirect_is_search_itext's detection of the search() appearance against Model/Search.v"""
    name = "S.is_search"
    imports = ["PX.Model.Search"]
    fn = "fun a => if is_search a then [49%N] else [48%N]"
    in_ty = "list N"
    n_quick, n_thorough = 400, 4000

    def generate(self, rng, n):
        import types
        from pyxform.survey import Survey
        atoms = ["search(", ")", "search", "(", "'f'", "minimal", "quick", " ", "\n", "search('fruits')", "research('x')", "Search(", "search (", ",", "a", "w1", "likert", "search()", "search(\n)", "é"]
        cases = []
        for _ in range(n):
            a = "".join(rng.choice(atoms) for _ in range(rng.randint(0, 5)))
            el = types.SimpleNamespace(control={"appearance": a}, itemset="l", name="q", choices=types.SimpleNamespace(used_by_search=False, options=[], name="l"))
            exp = "1" if Survey._redirect_is_search_itext(None, el) else "0"
            cases.append({"coq": cstr(a), "expected": exp, "desc": {"appearance": a}, "class": "search" if exp == "1" else "not search", "nontrivial": "search" in a})
        return cases


class RedirectOp(Op):
    """Survey._redirect_is_search_itext's outcome for one select (in-line items from which copy / rejected / not search) against Model/Redirect.v"""
    name = "S.redirect"
    imports = ["PX.Model.Redirect"]
    fn = ("fun p : (option (list N) * list N * bool * list (list N)) => let '(ap, its, copy, lists) := p in match redirect ap its copy lists with "
          "RNotSearch => [78%N] | RErrFile => [70%N] | RErrNoList => [76%N] | RInline false => [73;48]%N | RInline true => [73;49]%N end")
    in_ty = "(option (list N) * list N * bool * list (list N))"
    n_quick, n_thorough = 300, 3000

    def generate(self, rng, n):
        import types
        from pyxform.survey import Survey
        from pyxform.errors import PyXFormError
        aps = [None, "", "minimal", "search('f')", "quick search('f', 'matches', 'c', 'v')", "search(", "search()", "research('x')", "search (x)", "likert"]
        sets = ["l", "l2", "cities.csv", "a.xml", "b.geojson", "${q}", "x.txt", "opts.1", ".csv", "l.CSV"]
        cases = []
        for _ in range(n):
            ap = rng.choice(aps)
            its = rng.choice(sets)
            copy = rng.random() < 0.4
            lists = [x for x in ["l", "l2", "opts.1", "${q}", "cities.csv"] if rng.random() < 0.4]
            mk = lambda nm: types.SimpleNamespace(used_by_search=rng.random() < 0.3, options=[], name=nm)
            survey = types.SimpleNamespace(choices=({x: mk(x) for x in lists} if (lists or rng.random() < 0.5) else None))
            control = {"appearance": ap} if ap is not None else rng.choice([{}, None])
            el = types.SimpleNamespace(control=control, itemset=its, name="q", choices=mk(its) if copy else None)
            try:
                r = Survey._redirect_is_search_itext(survey, el)
                if not r:
                    exp = "N"
                else:
                    adopted = (not copy) and el.choices is not None and el.choices is survey.choices.get(its)
                    exp = "I1" if adopted else "I0"
                    if not el.choices.used_by_search:
                        exp = "unmarked"
            except PyXFormError as ex:
                exp = "F" if "select from file" in str(ex) else ("L" if "does not reference a choice list" in str(ex) else "other:" + str(ex)[:40])
            except Exception as ex:   # an outcome the model does not have
                exp = "crash:" + type(ex).__name__
            cases.append({"coq": f"({'None' if ap is None else '(Some ' + cstr(ap) + ')'}, {cstr(its)}, {cbool(copy)}, {clist([cstr(x) for x in lists], '(list N)')})",
                          "expected": exp, "desc": {"appearance": ap, "itemset": its, "copy": copy, "lists": lists}, "class": exp, "nontrivial": exp != "N"})
        return cases


def ops(tier):
    return [SplitextOp(), StaticInstanceOp(), RegistryOp(), ItemsetOp(), CsvOp(), CsvParseOp(), SearchDetectOp(), RedirectOp()]


# ---- direct oracle ---------------------------------------------------------------------------------------------
def gen_oracle_form(rng):
    langs = rng.choice([[], [], ["en"], ["en", "fr"]])
    allow_dup = rng.random() < 0.2
    cols = [c for c in EXTRA_COLS if rng.random() < 0.45]
    nlists = rng.randint(1, 4)
    lists = {}
    choices = []
    for li in range(nlists):
        ln = f"l{li}" if rng.random() < 0.7 else rng.choice(["cities", "yes-no", "opts.1"]) + str(li)
        size = rng.choice([1, 2, 3, 5, 8, 30])
        translated = bool(langs) and rng.random() < 0.5
        rows = []
        for i in range(size):
            nm = f"c{i}" if not (allow_dup and i and rng.random() < 0.3) else "c0"
            row = {"list_name": ln, "name": nm}
            if translated:
                for lg in langs:
                    if rng.random() < 0.9 or lg == langs[0]:
                        row[f"label::{lg}"] = f"{ln} {i} {lg}"
            else:
                row["label"] = rng.choice([f"{ln} item {i}", "a & b", "<i>", "é"])
            for c in cols:
                if rng.random() < 0.55:
                    row[c] = rng.choice(["1", "x", "a<b", "é", f"{i}"])
            rows.append(row)
        lists[ln] = {"rows": rows, "translated": translated}
    # interleave the lists' rows on the sheet now and then (grouping must not depend on contiguity)
    names = list(lists)
    if rng.random() < 0.3 and len(names) > 1:
        pools = {n: list(lists[n]["rows"]) for n in names}
        while any(pools.values()):
            n = rng.choice([x for x in names if pools[x]])
            choices.append(pools[n].pop(0))
        order = []
        for r in choices:
            if r["list_name"] not in order:
                order.append(r["list_name"])
        lists = {n: lists[n] for n in order}
    else:
        for n in names:
            choices += lists[n]["rows"]
    survey = [{"type": "text", "name": "q0", "label": "Q0"}]
    selects = []
    own_other_done = set()
    ext_sources = {}          # id -> src
    uses_external = False
    last_saved = False
    depth = []
    k = 0

    def add_source(i, src):
        ext_sources[i] = src

    for _ in range(rng.randint(1, 7)):
        k += 1
        nm = f"s{k}"
        if rng.random() < 0.2 and len(depth) < 2:
            kind = rng.choice(["group", "repeat"])
            brow = {"type": f"begin {kind}", "name": f"g{k}", "label": "G"}
            # data sources named on the row that opens a group or repeat are declared like those named on questions
            r_ = rng.random()
            if r_ < 0.2:
                brow["relevant"] = "${last-saved#q0} = 'yes'"
                last_saved = True
            elif r_ < 0.3 and kind == "repeat":
                brow["repeat_count"] = rng.choice(["${last-saved#q0}", "${last-saved#q0} + 1"])
                last_saved = True
            elif r_ < 0.5:
                f_ = rng.choice(["households", "members"])
                brow[rng.choice(["relevant", "required"])] = f"pulldata('{f_}', 'a', 'b', ${{q0}}) = 'x'"
                add_source(f_, f"jr://file-csv/{f_}.csv")
            survey.append(brow)
            depth.append((kind, f"g{k}"))
            survey.append({"type": "text", "name": f"rq{k}", "label": "RQ"})      # an empty group crashes pyxform (C17 finding)
            continue
        if depth and rng.random() < 0.25:
            kind, _ = depth.pop()
            survey.append({"type": f"end {kind}"})
            continue
        path = "/" + "/".join(["data", *[d[1] for d in depth], nm])
        variant = rng.choice(["plain", "plain", "filter", "rand", "randseed", "randref", "or_other", "file", "file", "external", "search", "rank", "multi", "xmlext", "pull", "last"])
        if variant == "xmlext" and any(d[0] == "repeat" for d in depth):
            variant = "plain"                       # an external instance inside a repeat crashes pyxform (C17 finding)
        ln = rng.choice(list(lists))
        row = {"name": nm, "label": "S"}
        sel = {"path": path, "variant": variant, "list": ln, "name": nm}
        if variant in ("plain", "filter", "rand", "randseed", "randref", "rank", "multi", "or_other", "search"):
            cmd = {"rank": "rank", "multi": "select_multiple"}.get(variant, rng.choice(["select_one", "select_multiple"]))
            if variant == "search":
                cmd = "select_one"
            row["type"] = f"{cmd} {ln}"
            sel["cmd"] = cmd
            if variant == "filter":
                row["choice_filter"] = rng.choice(["cf = 'x'", "cf=${q0}", "true()"])
                sel["filter"] = row["choice_filter"].replace("${q0}", " /data/q0 ")
            if variant in ("rand", "randseed", "randref"):
                row["parameters"] = "randomize=true" + {"rand": "", "randseed": " seed=42", "randref": " seed=${q0}"}[variant]
                sel["rand"] = True
                sel["seed"] = {"rand": None, "randseed": "42", "randref": "/data/q0"}[variant]
            if variant == "or_other":
                if lists[ln]["translated"] or cmd == "rank":
                    continue
                row["type"] += " or_other"
                rows_l = lists[ln]["rows"]
                if rng.random() < 0.3 and not any(r["name"] == "other" for r in rows_l) and ln not in own_other_done:
                    own = {"list_name": ln, "name": "other", "label": "Something else"}
                    at = rng.randint(0, len(rows_l))
                    anchor = rows_l[at] if at < len(rows_l) else None
                    rows_l.insert(at, own)
                    choices.insert(choices.index(anchor) if anchor is not None else max(i2 for i2, r2 in enumerate(choices) if r2["list_name"] == ln) + 1, own)
                own_other_done.add(ln)
            if variant == "search":
                row["appearance"] = rng.choice(["search('fruits')", "search('fruits')", "minimal search('fruits')", "quick search('fruits', 'matches', 'name', 'x')", "search('f')"])
        elif variant == "file":
            f = rng.choice(["cities", "fruits", "geo"]) + rng.choice([".csv", ".xml", ".geojson"])
            row["type"] = f"select_one_from_file {f}"
            sel["file"] = f
            if rng.random() < 0.4:
                # parameter names in any case and order, separated by space, comma or semicolon; the VALUES keep their case
                vref, lref = rng.choice([("vid", "vlabel"), ("SiteCode", "SiteName"), ("WardID", "wardName")])
                kv = [(rng.choice(["value", "Value", "VALUE"]), vref), (rng.choice(["label", "Label", "LABEL"]), lref)]
                if rng.random() < 0.5:
                    kv.reverse()
                row["parameters"] = rng.choice([" ", ", ", ";", " ; "]).join(f"{k}={v}" for k, v in kv)
                sel["refs"] = (vref, lref)
            stem, ext = f.rsplit(".", 1)
            add_source(stem, ("jr://file-csv/" if ext == "csv" else "jr://file/") + f)
        elif variant == "external":
            row["type"] = "select_one_external cities"
            row["choice_filter"] = "state=${q0}"
            uses_external = True
            sel["filter"] = "state= /data/q0 "
        elif variant == "xmlext":
            t = rng.choice(["xml-external", "csv-external"])
            row = {"type": t, "name": f"ext{k}"}
            add_source(f"ext{k}", f"jr://file/ext{k}.xml" if t == "xml-external" else f"jr://file-csv/ext{k}.csv")
            sel = None
        elif variant == "pull":
            f = rng.choice(["fruits", "prices"])
            row = {"type": "calculate", "name": nm, "calculation": rng.choice([f"pulldata('{f}', 'a', 'b', ${{q0}})", f"pulldata ('{f}', 'a', 'b', ${{q0}})", f'pulldata( "{f}" , "a", "b", ${{q0}})',
                                                                                f"pulldata('{f}', 'a', 'b', ${{q0}}) + pulldata(${{q0}}, 'a', 'b', 'c')"])}
            add_source(f, f"jr://file-csv/{f}.csv")      # a call whose first argument is an expression names no file: no instance for it
            sel = None
        elif variant == "last":
            row = {"type": "text", "name": nm, "label": "L"}
            where = rng.choice(["default", "constraint", "relevant", "required", "calculation", "choice_filter", "label", "hint"])
            if where in ("label", "hint"):
                row[where] = "Last time: ${last-saved#q0}"
            elif where == "default":
                row["default"] = "${last-saved#q0}"
            elif where == "calculation":
                row = {"type": "calculate", "name": nm, "calculation": "${last-saved#q0} + 1"}
            elif where == "choice_filter":
                row = {"type": f"select_one {ln}", "name": nm, "label": "S", "choice_filter": "cf = ${last-saved#q0}"}
                sel = {"path": path, "variant": "filter", "list": ln, "name": nm, "cmd": "select_one", "filter": "cf =  instance('__last-saved')/data/q0 "}
            else:
                row[where] = ". != ${last-saved#q0}"
            if where not in ("default", "calculation") and rng.random() < 0.5:
                row["default"] = "c0" if where == "choice_filter" else "abc"
            last_saved = True
            if where != "choice_filter":
                sel = None
        survey.append(row)
        if sel:
            selects.append(sel)
    while depth:
        kind, _ = depth.pop()
        survey.append({"type": f"end {kind}"})
    # a column whose header cannot be an element name (it holds a space) is dropped with a warning -- wherever its cells are filled
    if rng.random() < 0.25:
        bad = rng.choice(["my notes", "see also", "a b c"])
        for ln, info in lists.items():
            for j, r in enumerate(info["rows"]):
                if (j > 0 or rng.random() < 0.3) and rng.random() < 0.6:
                    r[bad] = rng.choice(["n", "x y", "1"])
    form = {"survey": survey, "choices": choices}
    if allow_dup:
        form["settings"] = [{"allow_choice_duplicates": "yes"}]
    ext = None
    if uses_external:
        hdr, rows = _ext_rows(rng)
        rows = [{k2: v.replace("\n", " ").strip() or "v" for k2, v in r.items()} for r in rows]
        form["external_choices"] = rows
        ext = (hdr, rows)
    # a search() list must not be shared with a non-search select; or_other appends to the list
    search_lists = {s["list"] for s in selects if s["variant"] == "search"}
    for s in selects:
        if s["list"] in search_lists and s["variant"] != "search" and s["variant"] not in ("file", "external"):
            return None
    return {"form": form, "lists": lists, "selects": selects, "sources": ext_sources, "last_saved": last_saved, "ext": ext,
            "search_lists": sorted(search_lists), "cols": cols, "langs": langs}


def audit(case, result):
    X = xf.XF
    root = xf.lparse(result.xform)
    model = root.find(xf.H + "head").find(X + "model")
    body = root.find(xf.H + "body")
    probs = []
    insts = list(model.findall(X + "instance"))[1:]
    ids = [i.get("id") for i in insts]
    if len(set(ids)) != len(ids):
        probs.append(f"instance ids are not unique: {ids}")
    lists = case["lists"]
    hdr_cols = [c for c in forms.headers_of(case["form"]["choices"]) if c not in ("list_name", "name") and not c.startswith("label") and " " not in c]
    or_other_lists = {s["list"] for s in case["selects"] if s["variant"] == "or_other"}
    for ln, info in lists.items():
        found = [i for i in insts if i.get("id") == ln]
        if ln in case["search_lists"]:
            if found:
                probs.append(f"list {ln} is consumed by search() but has an instance")
            continue
        if len(found) != 1:
            probs.append(f"list {ln}: {len(found)} instances")
            continue
        if found[0].get("src") is not None or len(found[0]) != 1:
            probs.append(f"list {ln}: instance is not an inline root")
            continue
        items = list(found[0][0])
        rows = list(info["rows"])
        exp = []
        for i, r in enumerate(rows):
            kids = []
            if info["translated"]:
                kids.append(("itextId", f"{ln}-{i}"))
            kids.append(("name", r["name"]))
            if not info["translated"] and "label" in r:
                kids.append(("label", r["label"]))
            for c in hdr_cols:
                if c in r:
                    kids.append((c, r[c]))
            exp.append(kids)
        if ln in or_other_lists and not any(r["name"] == "other" for r in rows):
            exp.append([("name", "other"), ("label", "Other")])
        got = [[(etree_local(c), c.text or "") for c in it] for it in items]
        if got != exp:
            for i, (g, e) in enumerate(zip(got, exp)):
                if g != e:
                    probs.append(f"list {ln} item {i}: {g} instead of {e}")
                    break
            else:
                probs.append(f"list {ln}: {len(got)} items instead of {len(exp)}")
    # external sources: exactly once, conventional URI
    expected_sources = dict(case["sources"])
    if case["last_saved"]:
        expected_sources["__last-saved"] = "jr://instance/last-saved"
    for i, src in expected_sources.items():
        hits = [x for x in insts if x.get("id") == i]
        if len(hits) != 1:
            probs.append(f"external source {i}: declared {len(hits)} times")
        elif hits[0].get("src") != src:
            probs.append(f"external source {i}: src {hits[0].get('src')!r} instead of {src!r}")
    for x in insts:
        if x.get("id") not in expected_sources and x.get("id") not in lists:
            probs.append(f"unexpected instance {x.get('id')!r}")
    # selects
    for s in case["selects"]:
        ctrl = [e for e in body.iter() if isinstance(e.tag, str) and e.get("ref") == s["path"]]
        if len(ctrl) != 1:
            probs.append(f"{s['path']}: {len(ctrl)} controls")
            continue
        ctrl = ctrl[0]
        if s["variant"] == "external":
            exp_q = f"instance('cities')/root/item[{s['filter']}]"
            if ctrl.get("query") != exp_q:
                probs.append(f"{s['path']}: query {ctrl.get('query')!r} instead of {exp_q!r}")
            continue
        isets = ctrl.findall(X + "itemset")
        if s["variant"] == "search":
            items = ctrl.findall(X + "item")
            vals = [i.find(X + "value").text for i in items]
            want = [r["name"] for r in lists[s["list"]]["rows"]]
            if isets or vals != want:
                probs.append(f"{s['path']}: search() select has itemset={len(isets)} inline values {vals} instead of {want}")
            continue
        if len(isets) != 1:
            probs.append(f"{s['path']}: {len(isets)} itemsets")
            continue
        it = isets[0]
        if "file" in s:
            stem, ext = s["file"].rsplit(".", 1)
            src = stem
            vref, lref = s.get("refs") or (("id", "title") if ext == "geojson" else ("name", "label"))
        else:
            src = s["list"]
            vref, lref = "name", ("jr:itext(itextId)" if lists[s["list"]]["translated"] else "label")
        ns = f"instance('{src}')/root/item"
        if s.get("filter"):
            ns += f"[{s['filter']}]"
        if s.get("rand"):
            ns = f"randomize({ns}" + (f", {s['seed']}" if s.get("seed") else "") + ")"
        got = (it.get("nodeset"), it.find(X + "value").get("ref"), it.find(X + "label").get("ref"))
        if got != (ns, vref, lref):
            probs.append(f"{s['path']}: itemset {got} instead of {(ns, vref, lref)}")
        if s["variant"] == "or_other":
            other = [e for e in body.iter() if isinstance(e.tag, str) and e.get("ref") == s["path"] + "_other"]
            binds = [b for b in model.iter(X + "bind") if b.get("nodeset") == s["path"] + "_other"]
            if len(other) != 1 or len(binds) != 1 or binds[0].get("relevant") != f"selected(../{s['name']}, 'other')":
                probs.append(f"{s['path']}: or_other companion question missing or not wired")
    # itemsets.csv
    if case["ext"]:
        hdr, rows = case["ext"]
        hdr = forms.headers_of(rows)
        if result.itemsets is None:
            probs.append("no itemsets.csv although select_one_external is used")
        else:
            table = list(csv.reader(io.StringIO(result.itemsets, newline="")))
            want = [hdr] + [[r.get(h, "") for h in hdr] for r in rows]
            if table != want:
                probs.append(f"itemsets.csv differs from the external_choices sheet: {table[:4]} instead of {want[:4]}")
    elif result.itemsets is not None:
        probs.append("itemsets.csv produced without external choices")
    return probs


def etree_local(e):
    t = e.tag
    return t.split("}", 1)[1] if isinstance(t, str) and t.startswith("{") else t


def _check(args):
    seed, i = args
    rng = rng_for(seed, PID, "oracle", i)
    case = gen_oracle_form(rng)
    if case is None:
        return {"i": i, "skip": "generator: search list shared"}
    st, r = xf.convert_form(forms.as_dict(case["form"]))
    if st != "ok":
        # the generator builds valid workbooks; the one rejection it can draw is a clash of instance ids between an external source
        # and a file of the same stem (part of the property).  Any other refusal means a list yields no instance at all.
        if st == "pyxerr" and str(r).startswith("The same instance id will be generated for different external instance source URIs"):
            return {"i": i, "skip": st + ":" + str(r)[:60], "form": case["form"]}
        if st == "pyxerr":
            return {"i": i, "form": case["form"], "what": f"a workbook whose lists and selects are all valid was refused: {str(r)[:300]}"}
        return {"i": i, "skip": st + ":" + str(r)[:60], "form": case["form"]}
    try:
        probs = audit(case, r)
    except Exception as e:   # noqa: BLE001
        return {"i": i, "form": case["form"], "what": f"oracle could not audit: {e!r}"}
    if probs:
        return {"i": i, "form": case["form"], "what": "; ".join(probs)[:900], "xform": r.xform[:3000]}
    return {"i": i, "ok": True, "key": hash(r.xform), "n": len(case["selects"]), "variants": [s["variant"] for s in case["selects"]]}


def oracle(seed, tier, searching=False):
    n = 600 if tier == "quick" else 10000
    if searching:
        n *= 3
    res = pmap(_check, [(seed, i) for i in range(n)])
    fails = [r for r in res if "what" in r]
    oks = [r for r in res if r.get("ok")]
    skips, variants = {}, {}
    for r in res:
        if "skip" in r:
            skips[r["skip"][:60]] = skips.get(r["skip"][:60], 0) + 1
        for v in r.get("variants", []):
            variants[v] = variants.get(v, 0) + 1
    return {
        "evaluations": len(res), "distinct_nontrivial": len({r["key"] for r in oks if r["n"] > 0}),
        "rule": "generated workbooks: 1-4 choice lists of 1-30 choices (translated or not, sparse extra columns, interleaved rows, duplicate names when "
                "allowed, unused lists) and up to 7 selects of every variant (one/multiple/rank, filter, randomize/seed literal or reference, or_other, "
                "from file csv/xml/geojson with value/label parameters, external, search, xml-/csv-external, pulldata, last-saved) inside nested groups "
                "and repeats; on the real XForm: one instance per list with the sheet's rows in order and the documented children, unique ids, "
                "search() lists inline, every itemset equal to the documented formula for its own list/filter/parameters, or_other wiring, every "
                "external source declared exactly once with its conventional URI, itemsets.csv (csv.reader) equal to the external_choices sheet",
        "accepted": len(oks), "skipped": skips, "select_variants": variants,
        "failures": [{"input": {"form": f["form"], "case": f["i"]}, "what": f["what"], "observed": f.get("xform"),
                      "reproduce": "cd /verif && /venv/bin/python harness/check.py C09 --replay <this file>"} for f in fails[:8]],
        "samples": [{"oracle_case": r["i"], "selects": r["variants"]} for r in oks[:3]],
    }


def replay_finding(slug):
    return None


def replay(path: Path) -> int:
    payload = json.loads(Path(path).read_text())
    case_no = payload["input"].get("case")
    seed = payload.get("seed", 20260930)
    for searching_seed in (seed,):
        rng = rng_for(searching_seed, PID, "oracle", case_no)
        case = gen_oracle_form(rng)
        if case and case["form"] == payload["input"]["form"]:
            st, r = xf.convert_form(forms.as_dict(case["form"]))
            if st == "ok":
                probs = audit(case, r)
                print(probs)
                if probs:
                    print(f"VIOLATION property={PID} replay={path}")
                    return 1
            elif st == "pyxerr" and not str(r).startswith("The same instance id will be generated"):
                print(f"a valid workbook was refused: {r}")
                print(f"VIOLATION property={PID} replay={path}")
                return 1
            return 0
    print("the replay's form is not the one this generator draws for that case number; run the check to search again")
    return 0
