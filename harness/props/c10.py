"""C10 — defaults and triggered calculations are applied exactly once."""

from __future__ import annotations

import json
from pathlib import Path

from common import cstr, clist, cbool, rng_for
from opbase import Op, pmap
import forms
import xf

PID = "C10"
GUARD = ("trigger cells hold a single ${name} reference to a user-visible question (a trigger cell with several references is outside the "
         "property's trigger/target pairing; see DESIGN.md F10); sibling names unique")
MODELLED = ("utils.default_is_dynamic over the lexer's tokens, Question.xml_instance with Section.xml_instance/generate_repeating_template, "
            "get_setvalue_node_for_dynamic_default, the model placement in Survey.xml_descendent_bindings, RepeatingSection._dynamic_defaults_helper, "
            "builder._save_trigger, Question.xml_control/nest_set_nodes and the calculate rule of xml_bindings (coq/Model/Defaults.v; token-name "
            "sets, event strings and the shape of each of these functions are regenerated/pinned from /repo on every run). "
            "re.Scanner over LEXER_RULES is modelled rule by rule (coq/Model/Scanner.v; the 26 pattern texts and their order are regenerated "
            "from /repo and pinned in Proofs/PinsScanner.v; op L.scan compares tokens, offsets and remainder with the real scanner)")
ASSUMPTIONS = ["re.Scanner compiles the patterns without the UNICODE flag: \\d and \\s are the ASCII classes (observed by L.scan on NBSP, U+2000, U+001C, Arabic-Indic digits)",
               "Python's re engine (leftmost-alternative, greedy, backtracking) implements the 26 patterns as written out in Model/Scanner.v (checked by L.scan, not proved)"]

TYPES = ["text", "integer", "decimal", "date", "dateTime", "time", "select_one yn", "geopoint", "calculate", "note", "barcode", "image"]

LITERALS = {
    "text": ["abc", "hello world", "a-b", "x_y", "é", "yes", "5", "a.b", "it's", "Don't know", "N/A", "mod", "a, b", "#tag"],
    "integer": ["5", "0", "-5", "12345"],
    "decimal": ["1.5", "-0.25", ".5", "3."],
    "date": ["2020-01-02", "1999-12-31", "-0044-03-15"],
    "dateTime": ["2020-01-02T10:00:00", "2020-01-02T10:00:00Z", "2020-01-02T10:00:00+02:00", "2020-01-02T10:00:00.123+02:00", "2020-01-02T10:00:00.5Z", "2020-01-02T10:00:00.25-05:30"],
    "time": ["10:00:00", "23:59:59Z", "10:00:00.25", "10:00:00.5+01:00"],
    "image": ["pic.jpg", "photo_1.png", "jr://images/x.png"],      # a file name: written with the images prefix (unless it has it)
    "select_one yn": ["yes", "no"],
    "geopoint": ["10.5 -20.25 0 0", "-1.2 36.8"],
    "barcode": ["0123456789"],
    "note": ["fixed"],
}
EXPRESSIONS = ["now()", "today()", "1 + 1", "3 * 2", "${q0}", "concat('a', 'b')", "${q0} + 1", "if(${q0} = '', 'x', 'y')", "uuid()", "string-length('abc')",
               "once(random())", "7 mod 2", "8 div 2", "a | b", "format-date(today(), '%Y')", "${last-saved#q0}", "count-selected(.)"]
HYPHEN_EXPR = ["today() - 1", "${q0} - 1"]       # dynamic for every type: a dynamic token precedes the hyphen


def bare(t):
    return t.split()[0]


class ClassifierOp(Op):
    """default_is_dynamic over the real scanner's tokens"""
    name = "L.default_is_dynamic"
    imports = ["PX.Model.Defaults"]
    fn = "fun p => let '(d, ty, toks) := p in if default_is_dynamic (fun _ => toks) d ty then [49%N] else [48%N]"
    in_ty = "(list N * list N * list (list N * list N))"
    n_quick, n_thorough = 500, 5000

    def generate(self, rng, n):
        from pyxform.utils import default_is_dynamic
        from pyxform.parsing.expression import parse_expression
        cases = []
        atoms = ["a", "1", "-1", "2020-01-02", "10:00:00", "now()", "${q}", "${", "}", " ", "-", "+", "*", " mod ", " div ", "|", "(", ")", "[", "]", "f(", "n[",
                 ".", "..", "/", "'s'", '"d"', ",", "=", "!=", " and ", " or ", "x://", "é", "a-b", "1.5", ".5", "-", "T", "#", "{", "q:n", "-.5", "1-1", "a - b"]
        for _ in range(n):
            r = rng.random()
            ty = bare(rng.choice(TYPES)) if rng.random() < 0.8 else rng.choice(["geotrace", "geoshape", "string", ""])
            if r < 0.25:
                d = rng.choice(sum(LITERALS.values(), []))
            elif r < 0.45:
                d = rng.choice(EXPRESSIONS + HYPHEN_EXPR)
            else:
                d = "".join(rng.choice(atoms) for _ in range(rng.randint(0, 5)))
            toks, _rest = parse_expression(d)
            exp = "1" if default_is_dynamic(d, ty) else "0"
            coq = f"({cstr(d)}, {cstr(ty)}, " + clist([f"({cstr(t.name)}, {cstr(t.value)})" for t in toks], "(list N * list N)") + ")"
            cases.append({"coq": coq, "expected": exp, "desc": {"default": d, "type": ty}, "class": f"{'dynamic' if exp == '1' else 'static'}", "nontrivial": bool(d)})
        return cases


SCAN_ATOMS = ["a", "ab", "q1", "x-y", "a.b", "é", "日", "_u", "1", "12", "2020-01-02", "-0044-03-15", "10:00:00", "T", "Z", "+02:00", "-", "+", "*", " mod ", " div ", "mod",
              "=", "!=", "<", ">", "<=", ">=", " and ", " or ", "|", "(", ")", "[]{}", "[", "]", "{", "}", "..", ".", "/", "'s'", '"d"', "'", '"', ",", " ", "  ", "\t", "\n",
              "${", "}", "${q}", "${last-saved#q}", "${last-saved}", "${a:b}", "f(", "n[", "x://", "a:b://", "a:", "a:b", ":", "#", "@", "1.5", ".5", "5.", "-1", "-.5", "1-1",
              "10:00:00.  Z", "10:00:00. ", "2020-01-02T10:00:00", "2020-01-02T10:00:00+02:00", "$", "\\", "😀", "a:(", "a:b(", "last-saved#", "now()", "\r\n", "\x0b", "\u00a0",
              "\x1c", "\x85", "١٢", "٢٠٢٠-01-02", "·", "a·b", "\u0300", "a\u0300", "\u203f", "\u2040x", "\ud7ff", "\uf900", "\ufffd", "\U00010000", "\U000effff", "\U000f0000", "×", "÷", "\u037e", "\u2000", "\u200c"]


def scan_text(rng):
    r = rng.random()
    if r < 0.2:
        return rng.choice(sum(LITERALS.values(), []) + EXPRESSIONS + HYPHEN_EXPR)
    return "".join(rng.choice(SCAN_ATOMS) for _ in range(rng.randint(0, 6)))


class ScannerOp(Op):
    """_EXPRESSION_LEXER.scan against Model/Scanner.v: token names, texts, start/end offsets and the remainder"""
    name = "L.scan"
    imports = ["PX.Model.Scanner"]
    fn = ("fun s => let '(ts, rem) := scan s in join [2%N] (map (fun t => let '(n, v, a, b) := t in n ++ [1%N] ++ v ++ [1%N] ++ dec (N.of_nat a) ++ [1%N] ++ dec (N.of_nat b)) "
          "(with_pos 0 ts)) ++ [3%N] ++ rem")
    in_ty = "list N"
    n_quick, n_thorough = 1200, 12000

    def generate(self, rng, n):
        from pyxform.parsing.expression import _EXPRESSION_LEXER
        cases = []
        for _ in range(n):
            s = scan_text(rng)
            toks, rem = _EXPRESSION_LEXER.scan(s)
            exp = "\x02".join(f"{t.name}\x01{t.value}\x01{t.start}\x01{t.end}" for t in toks) + "\x03" + rem
            kinds = sorted({t.name for t in toks})
            cases.append({"coq": cstr(s), "expected": exp, "desc": {"text": s}, "class": f"{min(len(toks), 6)} tokens", "nontrivial": len(kinds) > 1})
        return cases


class TextClassifierOp(Op):
    """default_is_dynamic on the raw text, through the modelled scanner (no oracle)"""
    name = "L.default_is_dynamic_text"
    imports = ["PX.Model.Scanner", "PX.Model.Defaults"]
    fn = "fun p => if default_is_dynamic tokens (fst p) (snd p) then [49%N] else [48%N]"
    in_ty = "(list N * list N)"
    n_quick, n_thorough = 600, 6000

    def generate(self, rng, n):
        from pyxform.utils import default_is_dynamic
        cases = []
        for _ in range(n):
            ty = bare(rng.choice(TYPES)) if rng.random() < 0.8 else rng.choice(["geotrace", "geoshape", "string", ""])
            d = scan_text(rng)
            exp = "1" if default_is_dynamic(d, ty) else "0"
            cases.append({"coq": f"({cstr(d)}, {cstr(ty)})", "expected": exp, "desc": {"default": d, "type": ty},
                          "class": "dynamic" if exp == "1" else "static", "nontrivial": bool(d)})
        return cases


# ---- trees with defaults ----------------------------------------------------------------------------------------
def gen_dtree(rng, max_depth=3):
    """('Q', name, type, default|None) | ('G', name, kids) | ('R', name, kids); q0 first"""
    counter = [0]

    def fresh(p):
        counter[0] += 1
        return f"{p}{counter[0]}"

    def node(depth):
        r = rng.random()
        if depth < max_depth and r < 0.2:
            return ("G", fresh("g"), kids(depth + 1))
        if depth < max_depth and r < 0.45:
            return ("R", fresh("r"), kids(depth + 1))
        ty = rng.choice(TYPES)
        d = None
        if rng.random() < 0.7 and bare(ty) != "note":
            if rng.random() < 0.5:
                d = rng.choice(LITERALS.get(ty, LITERALS["text"])) if bare(ty) != "calculate" else rng.choice(["5", "abc"])
            else:
                d = rng.choice(EXPRESSIONS + HYPHEN_EXPR)
        return ("Q", fresh("q"), ty, d)

    def kids(depth):
        return [node(depth) for _ in range(rng.randint(1, 3))]

    return [("Q", "q0", "text", None), *kids(1)]


def dtree_rows(tree):
    rows = []

    def go(t):
        if t[0] == "Q":
            _, name, ty, d = t
            row = {"type": ty, "name": name}
            if bare(ty) == "calculate":
                row["calculation"] = "1"
            else:
                row["label"] = "L"
            if d is not None:
                row["default"] = d
            rows.append(row)
            return
        kind = "group" if t[0] == "G" else "repeat"
        rows.append({"type": f"begin {kind}", "name": t[1], "label": kind})
        for k in t[2]:
            go(k)
        rows.append({"type": f"end {kind}"})
    for k in tree:
        go(k)
    return rows


def dtree_coq(tree):
    from pyxform.utils import default_is_dynamic

    def go(t):
        if t[0] == "Q":
            _, name, ty, d = t
            dyn = bool(d) and bool(default_is_dynamic(d, bare(ty)))          # tied by op L.default_is_dynamic
            if bare(ty) == "image":
                return f"(Qn {cstr(name)} (image_default {cstr(d or '')} {cbool(dyn)}) {cbool(dyn)})"
            return f"(Qn {cstr(name)} {cstr(d or '')} {cbool(dyn)})"
        c = "Gp" if t[0] == "G" else "Rp"
        return f"({c} {cstr(t[1])} {clist([go(k) for k in t[2]], 'el')})"
    return clist([go(k) for k in tree], "el")


def real_projection(xform, tree):
    """leaves of the primary instance, model setvalues and per-repeat body setvalues of the real XForm"""
    X = xf.XF
    root = xf.lparse(xform)
    model = root.find(xf.H + "head").find(X + "model")
    body = root.find(xf.H + "body")
    data = model.find(X + "instance")[0]
    raw = {}

    def collect(t):
        if t[0] == "Q":
            raw["/data/" + "/".join(t[4])] = t[3]
        else:
            for k in t[2]:
                collect(k)
    # paths
    def annotate(t, pre):
        if t[0] == "Q":
            return (*t, [*pre, t[1]])
        return (t[0], t[1], [annotate(k, [*pre, t[1]]) for k in t[2]])
    for k in tree:
        collect(annotate(k, []))
    qpaths = set(raw)
    leaves = []

    def walk(e, pre):
        p = pre + "/" + xf_local(e)
        if p in qpaths:
            leaves.append(f"{p}={e.text or ''}")
        for c in e:
            if isinstance(c.tag, str):
                walk(c, p)
    for c in data:
        if isinstance(c.tag, str) and xf_local(c) != "meta":
            walk(c, "/data")

    def sv_text(s):
        ref = s.get("ref")
        val = s.get("value")
        d = raw.get(ref)
        if d is not None and "${" in d:
            val = d                     # reference substitution is C03's subject
        return f"{ref}|{val}|{s.get('event')}"
    msv = [sv_text(s) for s in model.findall(X + "setvalue")]
    bsv = []
    for rep in body.iter(X + "repeat"):
        bsv.append(rep.get("nodeset") + ":" + ";".join(sv_text(s) for s in rep.findall(X + "setvalue")))
    stray = [s for s in root.iter(X + "setvalue") if s.getparent() is not model and s.getparent().tag != X + "repeat"]
    return "\n".join(leaves) + "\x00" + "\n".join(msv) + "\x00" + "\n".join(bsv) + "\x00" + str(len(stray))


def xf_local(e):
    t = e.tag
    return t.split("}", 1)[1] if t.startswith("{") else t


class DefaultsOp(Op):
    """instance text, model setvalues and repeat-body setvalues of real forms against the model"""
    name = "D.defaults"
    imports = ["PX.Model.Defaults", "PX.Gen.Defaults"]
    fn = ("fun kids => let root := [100;97;116;97]%N in let pt := fun p => [47%N] ++ join [47%N] p in "
          "let svt := fun ev s => pt (sv_ref s) ++ [124%N] ++ sv_value s ++ [124%N] ++ ev in "
          "join [10%N] (map (fun x => pt (fst x) ++ [61%N] ++ snd x) (leaves [] (inst false (Gp root kids)))) ++ [0%N] ++ "
          "join [10%N] (map (svt EVENT_FIRST_LOAD) (model_sv root kids)) ++ [0%N] ++ "
          "join [10%N] (map (fun x => pt (fst x) ++ [58%N] ++ join [59%N] (map (svt (EVENT_FIRST_LOAD ++ EVENT_NEW_REPEAT_SUFFIX)) (snd x))) "
          "(flat_map (body_sv [root]) kids)) ++ [0%N] ++ [48%N]")
    in_ty = "list el"
    n_quick, n_thorough = 300, 3000

    def generate(self, rng, n):
        cases = []
        for _ in range(n):
            tree = gen_dtree(rng)
            rows = dtree_rows(tree)
            form = {"survey": rows, "choices": [{"list_name": "yn", "name": "yes", "label": "Y"}, {"list_name": "yn", "name": "no", "label": "N"}]}
            st, r = xf.convert_form(forms.as_dict(form))
            if st != "ok":
                continue
            exp = real_projection(r.xform, tree)
            nd = sum(1 for row in rows if "default" in row)
            cases.append({"coq": dtree_coq(tree), "expected": exp, "desc": {"survey": rows}, "class": f"defaults={min(nd, 4)},repeats={min(sum(1 for x in rows if x['type'] == 'begin repeat'), 3)}",
                          "nontrivial": nd > 0})
        return cases


class TriggerOp(Op):
    """nested setvalue/setgeopoint actions and bind calculate of real forms against the model"""
    name = "D.triggers"
    imports = ["PX.Model.Defaults"]
    fn = ("fun p => let rows := map (fun r => let '(n, t, c, g) := r in mkTrow n t c g) (fst p) in "
          "join [10%N] (map (fun a => a ++ [58%N] ++ join [59%N] (map (fun x => match x with SetValue t v => [83%N] ++ t ++ [61%N] ++ v "
          "| SetGeopoint t v => [71%N] ++ t ++ [61%N] ++ v end) (nested_for rows a))) (snd p)) ++ [0%N] ++ "
          "join [10%N] (map (fun r => t_name r ++ [58%N] ++ match bind_calculate r with Some c => c | None => [45%N] end) rows)")
    in_ty = "(list (list N * option (list N) * list N * bool) * list (list N))"
    n_quick, n_thorough = 250, 2500

    def generate(self, rng, n):
        X = xf.XF
        cases = []
        for _ in range(n):
            nq = rng.randint(2, 6)
            visible = [f"v{i}" for i in range(rng.randint(1, 3))]
            rows = [{"type": "text", "name": v, "label": "V"} for v in visible]
            model_rows = [(v, None, "", False) for v in visible]
            for i in range(nq):
                name = f"t{i}"
                kind = rng.choice(["calc", "calc", "geo", "text", "plaincalc"])
                trig = rng.choice(visible)
                if kind == "calc":
                    calc = rng.choice(["1 + 1", "now()", "'x'", "concat('a', 'b')"])
                    cell = rng.choice([f"${{{trig}}}", f" ${{{trig}}} "])
                    rows.append({"type": "calculate", "name": name, "calculation": calc, "trigger": cell})
                    model_rows.append((name, cell.strip(), calc, False))
                elif kind == "geo":
                    rows.append({"type": "background-geopoint", "name": name, "trigger": f"${{{trig}}}"})
                    model_rows.append((name, f"${{{trig}}}", "", True))
                elif kind == "text":
                    has_calc = rng.random() < 0.5
                    row = {"type": "text", "name": name, "label": "T", "trigger": f"${{{trig}}}"}
                    if has_calc:
                        row["calculation"] = "'y'"
                    rows.append(row)
                    model_rows.append((name, f"${{{trig}}}", "'y'" if has_calc else "", False))
                else:
                    rows.append({"type": "calculate", "name": name, "calculation": "2 * 3"})
                    model_rows.append((name, None, "2 * 3", False))
            order = list(range(len(rows)))
            if rng.random() < 0.5:
                rng.shuffle(order)            # a trigger may follow its targets
            rows = [rows[i] for i in order]
            model_rows = [model_rows[i] for i in order]
            via_json = rng.random() < 0.4
            if via_json:
                # the JSON/dict API: cells reach the builder as given (no trimming by a sheet reader)
                from pyxform.builder import create_survey_element_from_dict
                kids = []
                for row, m in zip(rows, model_rows):
                    k = {"type": row["type"], "name": row["name"]}
                    if "label" in row:
                        k["label"] = row["label"]
                    if "calculation" in row:
                        k["bind"] = {"calculate": row["calculation"]}
                    if "trigger" in row:
                        k["trigger"] = rng.choice([row["trigger"], row["trigger"] + " ", " " + row["trigger"], row["trigger"] + "\n"])
                    kids.append(k)
                try:
                    xml = create_survey_element_from_dict({"type": "survey", "name": "data", "id_string": "t", "title": "t", "children": kids}).to_xml(validate=False)
                except Exception:   # noqa: BLE001
                    continue
            else:
                st, r = xf.convert_form(forms.as_dict({"survey": rows}))
                if st != "ok":
                    continue
                xml = r.xform
            root = xf.lparse(xml)
            body = root.find(xf.H + "body")
            model = root.find(xf.H + "head").find(X + "model")
            names = [row["name"] for row in rows]
            lines = []
            for a in names:
                ctrl = [e for e in body.iter() if isinstance(e.tag, str) and e.get("ref") == f"/data/{a}"]
                acts = []
                for c in ctrl:
                    for s in c:
                        if s.tag == X + "setvalue":
                            acts.append("S" + s.get("ref").rsplit("/", 1)[1] + "=" + (s.get("value") or ""))
                        elif s.tag == "{http://www.opendatakit.org/xforms}setgeopoint":
                            acts.append("G" + s.get("ref").rsplit("/", 1)[1] + "=" + (s.get("value") or ""))
                lines.append(f"{a}:" + ";".join(acts))
            binds = {b.get("nodeset").rsplit("/", 1)[1]: b for b in model.iter(X + "bind")}
            blines = [f"{a}:" + (binds[a].get("calculate") if a in binds and binds[a].get("calculate") is not None else "-") for a in names]
            exp = "\n".join(lines) + "\x00" + "\n".join(blines)
            coq = ("(" + clist([f"({cstr(nm)}, {'None' if t is None else '(Some ' + cstr(t) + ')'}, {cstr(c)}, {cbool(g)})" for nm, t, c, g in model_rows],
                               "(list N * option (list N) * list N * bool)") + ", " + clist([cstr(a) for a in names], "(list N)") + ")")
            cases.append({"coq": coq, "expected": exp, "desc": {"survey": rows, "via_json_api": via_json, "children": kids if via_json else None}, "class": f"triggered={min(sum(1 for m in model_rows if m[1]), 4)}{',json' if via_json else ''}", "nontrivial": any(m[1] for m in model_rows)})
        return cases


def ops(tier):
    return [ScannerOp(), ClassifierOp(), TextClassifierOp(), DefaultsOp(), TriggerOp()]


# ---- direct oracle ---------------------------------------------------------------------------------------------
def gen_oracle_case(rng):
    tree = gen_dtree(rng, max_depth=rng.choice([2, 3, 4]))
    rows = dtree_rows(tree)
    # triggers: calculations fired by visible questions anywhere in the form
    visible = [r["name"] for r in rows if r.get("label") and not r["type"].startswith(("begin", "end")) and bare(r["type"]) not in ("note",)]
    expect_trig = []
    extra = []
    for i in range(rng.randint(0, 4)):
        if not visible:
            break
        trig = expect_trig[-1][0] if expect_trig and rng.random() < 0.5 else rng.choice(visible)      # several targets on one trigger, often
        name = f"tc{i}"
        if rng.random() < 0.25:
            extra.append({"type": "background-geopoint", "name": name, "trigger": f"${{{trig}}}"})
            expect_trig.append((trig, name, "geo", ""))
        elif rng.random() < 0.3:
            # a target WITHOUT a calculation: its setvalue carries no value (and must not inherit a neighbour's)
            extra.append({"type": rng.choice(["text", "integer"]), "name": name, "label": "T", "trigger": f"${{{trig}}}"})
            expect_trig.append((trig, name, "sv", None))
        else:
            calc = rng.choice(["1 + 1", "now()", "'x'", "yes", "true", "FALSE", "no"])      # truth-value spellings: converted in binds, and a triggered calculation has no bind calculate
            extra.append({"type": "calculate", "name": name, "calculation": calc, "trigger": f"${{{trig}}}"})
            expect_trig.append((trig, name, "sv", calc))
    rows = rows + extra
    form = {"survey": rows, "choices": [{"list_name": "yn", "name": "yes", "label": "Y"}, {"list_name": "yn", "name": "no", "label": "N"}]}
    return tree, form, expect_trig


def audit(tree, form, expect_trig, xform):
    X = xf.XF
    ODK = "{http://www.opendatakit.org/xforms}"
    root = xf.lparse(xform)
    model = root.find(xf.H + "head").find(X + "model")
    body = root.find(xf.H + "body")
    data = model.find(X + "instance")[0]
    probs = []
    all_sv = list(root.iter(X + "setvalue"))
    binds = {b.get("nodeset"): b for b in model.iter(X + "bind")}

    def nodes_at(path):
        parts = path.strip("/").split("/")[1:]
        cur = [data]
        for p in parts:
            cur = [c for e in cur for c in e if isinstance(c.tag, str) and xf_local(c) == p]
        return cur

    def go(t, pre, reps):
        if t[0] != "Q":
            p = [*pre, t[1]]
            for k in t[2]:
                go(k, p, [*reps, "/" + "/".join(p)] if t[0] == "R" else reps)
            return
        _, name, ty, d = t
        path = "/" + "/".join([*pre, name])
        nodes = nodes_at(path)
        if not nodes:
            probs.append(f"{path}: no instance node")
            return
        if reps and len(nodes) < 2:
            probs.append(f"{path}: inside a repeat but only {len(nodes)} instance node(s) (template missing)")
        texts = {n.text or "" for n in nodes}
        svs = [s for s in all_sv if s.get("ref") == path and "xforms-value-changed" not in (s.get("event") or "")]
        if d is None:
            if texts != {""} or svs:
                probs.append(f"{path}: no default, yet node text {texts} / {len(svs)} setvalue(s)")
            return
        d_lit = d if ty != "image" or d.startswith("jr://images/") else "jr://images/" + d
        static_ok = texts == {d_lit} and not svs
        dyn_ok = texts == {""} and len(svs) == 1
        if not (static_ok or dyn_ok):
            probs.append(f"{path}: default {d!r} gives node texts {sorted(texts)} and {len(svs)} setvalue(s) — neither the literal only nor exactly one setvalue")
            return
        intended = "static" if d in LITERALS.get(ty, LITERALS["text"]) or d in ("5", "abc") else "dynamic"
        if intended == "static" and not static_ok:
            probs.append(f"{path}: the literal {d!r} ({ty}) was treated as an expression")
        if intended == "dynamic" and not dyn_ok:
            probs.append(f"{path}: the expression {d!r} ({ty}) was written as a literal")
        if dyn_ok:
            s = svs[0]
            par = s.getparent()
            if "${" not in d and s.get("value") != d:
                probs.append(f"{path}: setvalue value {s.get('value')!r} instead of {d!r}")
            if not reps:
                if par is not model or s.get("event") != "odk-instance-first-load":
                    probs.append(f"{path}: outside repeats, setvalue is in {xf_local(par)} with event {s.get('event')!r}")
            else:
                if par.tag != X + "repeat" or par.get("nodeset") != reps[-1] or s.get("event") != "odk-instance-first-load odk-new-repeat":
                    probs.append(f"{path}: inside {reps[-1]}, setvalue is in {xf_local(par)} {par.get('nodeset')!r} with event {s.get('event')!r}")

    for k in tree:
        go(k, ["data"], [])
    # no setvalue without a question behind it
    qpaths = set()

    def paths(t, pre):
        if t[0] == "Q":
            qpaths.add("/" + "/".join([*pre, t[1]]))
        else:
            for k in t[2]:
                paths(k, [*pre, t[1]])
    for k in tree:
        paths(k, ["data"])
    trig_targets = {f"/data/{name}" for _, name, _, _ in expect_trig}
    for s in all_sv:
        if s.get("ref") not in qpaths and s.get("ref") not in trig_targets:
            probs.append(f"setvalue for {s.get('ref')!r}, which is no question of the form")
    # triggers
    ctrl_of = {}
    for e in body.iter():
        if isinstance(e.tag, str) and e.get("ref"):
            ctrl_of.setdefault(e.get("ref"), e)
    name_path = {p.rsplit("/", 1)[1]: p for p in qpaths}
    for trig, name, kind, calc in expect_trig:
        target = f"/data/{name}"
        tag = ODK + "setgeopoint" if kind == "geo" else X + "setvalue"
        hits = [s for s in root.iter(tag) if s.get("ref") == target and "xforms-value-changed" in (s.get("event") or "")]
        if len(hits) != 1:
            probs.append(f"trigger {trig}->{name}: {len(hits)} value-changed actions")
            continue
        par = hits[0].getparent()
        if par.get("ref") != name_path.get(trig):
            probs.append(f"trigger {trig}->{name}: nested in {par.get('ref')!r} instead of {name_path.get(trig)!r}")
        if kind == "sv" and hits[0].get("value") != calc:
            probs.append(f"trigger {trig}->{name}: value {hits[0].get('value')!r} instead of {calc!r}")
        b = binds.get(target)
        if b is not None and b.get("calculate") is not None:
            probs.append(f"trigger {trig}->{name}: also emitted as bind calculate")
    for s in list(root.iter(X + "setvalue")) + list(root.iter(ODK + "setgeopoint")):
        if "xforms-value-changed" in (s.get("event") or "") and s.get("ref") not in trig_targets:
            probs.append(f"value-changed action for {s.get('ref')!r} without a trigger")
    return probs


def _check_hidden_trigger(seed, i):
    """an action whose trigger is a question without a control (a calculate) has nowhere to sit: the form is refused, for a setvalue and for the
    setgeopoint of a background-geopoint alike - never converted with the action dropped"""
    rng = rng_for(seed, PID, "hidden-trigger", i)
    kind = rng.choice(["geo", "calc", "text"])
    rows = [{"type": "text", "name": "a", "label": "A"}, {"type": "calculate", "name": "hid", "calculation": rng.choice(["1 + 1", "${a}"])}]
    target = {"geo": {"type": "background-geopoint", "name": "tgt", "trigger": "${hid}"},
              "calc": {"type": "calculate", "name": "tgt", "calculation": "2", "trigger": "${hid}"},
              "text": {"type": "text", "name": "tgt", "label": "T", "trigger": "${hid}", "calculation": "now()"}}[kind]
    rows.insert(rng.randint(0, 2), target) if rng.random() < 0.5 else rows.append(target)
    form = {"survey": rows}
    st, r = xf.convert_form(forms.as_dict(form))
    if st == "pyxerr":
        if "not user-visible" in str(r):
            return {"i": i, "ok": True, "key": ("hidden-trigger", kind, i % 7), "n": 1}
        return {"i": i, "form": form, "what": f"a {kind} action triggered by a calculate: refused, but not for that reason: {str(r)[:150]}"}
    if st != "ok":
        return {"i": i, "skip": "crash (C17)"}
    root = xf.lparse(r.xform)
    acts = [s for s in list(root.iter(xf.XF + "setvalue")) + list(root.iter("{http://www.opendatakit.org/xforms}setgeopoint")) if s.get("ref") == "/data/tgt"]
    return {"i": i, "form": form, "what": f"a {kind} action triggered by the calculate `hid`, which has no control: converted with {len(acts)} action(s) for /data/tgt instead of being refused",
            "xform": r.xform[:2000]}


def _check(args):
    seed, i = args
    if i % 10 == 9:
        return _check_hidden_trigger(seed, i)
    rng = rng_for(seed, PID, "oracle", i)
    tree, form, expect_trig = gen_oracle_case(rng)
    via_json = expect_trig and rng.random() < 0.4
    if via_json:
        # the same form through the JSON/dict API, trigger values padded with whitespace (no sheet reader trims them there)
        import copy
        from pyxform.xls2json import workbook_to_json
        from pyxform.xls2json_backends import get_xlsform
        from pyxform.builder import create_survey_element_from_dict
        try:
            js = workbook_to_json(workbook_dict=get_xlsform(copy.deepcopy(forms.as_dict(form))), form_name="data", warnings=[])

            def pad(d):
                if isinstance(d, dict):
                    if isinstance(d.get("trigger"), str):
                        d["trigger"] = rng.choice([d["trigger"] + " ", " " + d["trigger"], d["trigger"] + "\n", d["trigger"]])
                    for v in d.values():
                        pad(v)
                elif isinstance(d, list):
                    for v in d:
                        pad(v)
            pad(js)
            form = {**form, "__json_api__": [{"json": json.dumps(js)}]}
            xml = create_survey_element_from_dict(js).to_xml(validate=False)
        except Exception as e:   # noqa: BLE001
            return {"i": i, "skip": "json-api:" + repr(e)[:60]}
        r = type("R", (), {"xform": xml})()
    else:
        st, r = xf.convert_form(forms.as_dict(form))
        if st != "ok":
            return {"i": i, "skip": st + ":" + str(r)[:60]}
    try:
        probs = audit(tree, form, expect_trig, r.xform)
    except Exception as e:   # noqa: BLE001
        return {"i": i, "form": form, "what": f"oracle could not audit: {e!r}"}
    if probs:
        return {"i": i, "form": form, "what": "; ".join(probs)[:900], "xform": r.xform[:3000]}
    nd = sum(1 for row in form["survey"] if "default" in row)
    return {"i": i, "ok": True, "key": hash(r.xform), "n": nd + len(expect_trig)}


def oracle(seed, tier, searching=False):
    n = 600 if tier == "quick" else 10000
    if searching:
        n *= 3
    res = pmap(_check, [(seed, i) for i in range(n)])
    fails = [r for r in res if "what" in r]
    oks = [r for r in res if r.get("ok")]
    skips = {}
    for r in res:
        if "skip" in r:
            skips[r["skip"][:60]] = skips.get(r["skip"][:60], 0) + 1
    return {
        "evaluations": len(res), "distinct_nontrivial": len({r["key"] for r in oks if r["n"] > 0}),
        "rule": "generated forms: 11 question types x defaults drawn from per-type literals (numbers, negatives, dates, date-times, times, geopoints, "
                "words with hyphens/dots/apostrophes) and expressions (function calls, arithmetic, mod/div, union, references, last-saved), nested "
                "groups and repeats to depth 4, plus 0-3 triggered calculations/background-geopoints; on the real XForm every question's instance "
                "nodes (templates included) hold the literal and nothing targets it, or are empty with exactly one setvalue placed by repeat "
                "ancestry with the right event; literals must be static and expressions dynamic; every trigger pairing gives exactly one "
                "value-changed action nested in the trigger's control and no bind calculate; no action without a cause",
        "accepted": len(oks), "skipped": skips,
        "failures": [{"input": {"form": f["form"], "case": f["i"]}, "what": f["what"], "observed": f.get("xform"),
                      "reproduce": "cd /verif && /venv/bin/python harness/check.py C10 --replay <this file>"} for f in fails[:8]],
        "samples": [{"oracle_case": r["i"], "defaults_and_triggers": r["n"]} for r in oks[:3]],
    }


def replay_finding(slug):
    return None


def replay(path: Path) -> int:
    payload = json.loads(Path(path).read_text())
    case_no = payload["input"].get("case")
    seed = payload.get("seed", 20260930)
    for sd in (seed, seed + 1, seed + 2):           # the searching pass draws from the seeds that follow
        res = _check((sd, case_no))
        if res.get("form") == payload["input"]["form"] or sd == seed:
            if "what" in res:
                print(res["what"])
                print(f"VIOLATION property={PID} replay={path}")
                return 1
    print("no violation on this tree for the replayed case")
    return 0
