"""C11 — settings reach the form header verbatim."""

from __future__ import annotations

import json
import os
import shutil
import tempfile
from pathlib import Path
from xml.dom import minidom

from common import cstr, clist, rng_for
from opbase import Op, pmap
import forms
import xf

PID = "C11"
GUARD = ("settings columns are distinct after de-aliasing (form_id together with id_string is warned about and one is dropped); attribute:: "
         "names are XML names other than id/xmlns/version/odk:prefix/odk:delimiter for the order theorem (id is proved not overridable); "
         "the name setting is an XML name")
MODELLED = ("the JSON root assembled by workbook_to_json (defaults updated with the settings row), the instanceID/instanceName meta children, "
            "Survey.xml title/body class, Survey.get_nsmap, the submission block of Survey.xml_model and Survey.xml_instance "
            "(coq/Model/Settings.v; the submission and root-attribute tables are translated from the source on every run into "
            "coq/Gen/Settings.v, NSMAP into Gen/Top.v). De-aliasing of the settings headers is C13's model (Model/Headers.v); reading the "
            "file stem is decided by the oracle (path vs in-memory)")
ASSUMPTIONS = ["the settings row is cleaned of smart quotes only; inner whitespace of a value is kept by every reader (values are generated without leading/trailing whitespace, which sheet readers trim: C12/C13)"]

SETTING_ALIASES = {
    "title": ["form_title", "set_form_title", "title", "Form_Title", "form title"],
    "id_string": ["form_id", "set_form_id", "id_string", "Form_ID"],
    "version": ["version"], "name": ["name"], "instance_name": ["instance_name"], "submission_url": ["submission_url"],
    "public_key": ["public_key"], "auto_send": ["auto_send"], "auto_delete": ["auto_delete"], "style": ["style"],
    "namespaces": ["namespaces"], "omit_instanceID": ["omit_instanceID", "omit_instanceid", "Omit_InstanceID", "OMIT_INSTANCEID"], "instance_xmlns": ["instance_xmlns"],
    "prefix": ["prefix"], "delimiter": ["delimiter"], "default_language": ["default_language"], "sms_keyword": ["sms_keyword"],
    "instance_id": ["instance_id"],
}
VALUES = {
    "title": ["My Form", "T", "a & b", "<title>", "Enquête 2024", "it's", "form_id", "x=1", "Household  Survey", "a   b"],
    "id_string": ["my_form", "ID-1", "form 7", "é", "a&b"],
    "version": ["7", "2024010101", "v1.2", "1 2"],
    "name": ["root", "survey_1", "data", "Form-A"],
    "instance_name": ["concat('a', 'b')", "'fixed'", "uuid()", "1 + 1", "concat('a', '  --  ', 'b')"],
    "submission_url": ["https://example.org/submit", "http://x/?a=1&b=2"],
    "public_key": ["MIIBIjANBgkqhkiG9w0BAQEFAAOCAQ8AMIIBCgKCAQEA", "KEY=="],
    "auto_send": ["true", "false", "yes"], "auto_delete": ["true", "false"],
    "style": ["pages", "theme-grid", "pages theme-grid", "pages  theme-grid"],
    "namespaces": ['ex="http://example.org/ex"', "ex=http://example.org/ex", "ex='http://e.org' esri=\"https://esri.com/xforms\"", "broken", "=nokey", "jr=http://override",
                   'ex="http://example.org/ns?a=b"', "ex=http://e.org/?x=1&y=2 q=u=v="],
    "omit_instanceID": ["yes", "no", "true", "TRUE", "maybe"],
    "instance_xmlns": ["http://example.org/instance"],
    "prefix": ["P-", "pre"], "delimiter": ["|", ";"],
    "default_language": ["English (en)", "fr"], "sms_keyword": ["kw"], "instance_id": ["uid", "custom"],
}


def gen_settings(rng, hostile_attr=False):
    keys = [k for k in SETTING_ALIASES if rng.random() < 0.35]
    canon = {k: rng.choice(VALUES[k]) for k in keys}
    if canon.get("omit_instanceID") in ("yes", "true", "TRUE") and "public_key" in canon and rng.random() < 0.7:
        del canon["public_key"]
    attribute = {}
    ns_ok = "namespaces" in canon and canon["namespaces"].startswith("ex")
    for a in rng.sample(["foo", "xyz", "data-kind", "ex:bar", "Foo", "ex:id", "ex:version", "ex:foo"], rng.randint(0, 4)) if rng.random() < 0.4 else []:
        if a.startswith("ex:") and not ns_ok:
            continue
        attribute[a] = rng.choice(["1", "a b", "<&>", "é"])
    if hostile_attr and rng.random() < 0.5:
        attribute[rng.choice(["id", "version"])] = "HIJACK"
    spelled = {}
    both_ids = None
    if rng.random() < 0.12:
        # both the form_id and the id_string header: form_id's value is the id, id_string's only when the form_id cell is empty
        a, b = rng.choice(VALUES["id_string"] + [""]), rng.choice(VALUES["id_string"] + [""])
        if a or b:
            both_ids = (a, b)
            canon["id_string"] = a if a else b
    for k, v in canon.items():
        if k == "id_string" and both_ids:
            first, second = rng.choice([("form_id", "id_string"), ("id_string", "form_id")])
            spelled[first] = both_ids[0] if first == "form_id" else both_ids[1]
            spelled[second] = both_ids[0] if second == "form_id" else both_ids[1]
            continue
        spelled[rng.choice(SETTING_ALIASES[k])] = v
    for a, v in attribute.items():
        spelled[f"attribute::{a}"] = v
    items = list(spelled.items())
    rng.shuffle(items)
    # the canonical row in the same column order
    inv = {al: k for k, als in SETTING_ALIASES.items() for al in als}
    canon_ordered = []
    for h, v in items:
        if h in inv and not (both_ids and inv[h] == "id_string" and (inv[h], canon["id_string"]) in canon_ordered):
            if both_ids and inv[h] == "id_string":
                v = canon["id_string"]
            canon_ordered.append((inv[h], v))
    attr_ordered = [(h.split("::", 1)[1], v) for h, v in items if h.startswith("attribute::")]
    return dict(items), canon_ordered, attr_ordered


import re as _re
from xml.sax.saxutils import unescape as _unescape


def start_tag_attrs(xform, after):
    """attributes of the first start tag following the marker `after`, in document order (textual scan: the writer quotes with ")"""
    i = xform.index(after) + len(after)
    j = xform.index("<", i)
    k = xform.index(">", j)
    tag = xform[j:k]
    return [(m.group(1), _unescape(m.group(2), {"&quot;": '"'})) for m in _re.finditer(r'\s([^\s=]+)="([^"]*)"', tag)]


def extract_header(xform):
    """canonical header of a real XForm, read with minidom (attribute order is document order)"""
    doc = minidom.parseString(xform.encode("utf-8"))
    html = doc.documentElement
    head = [c for c in html.childNodes if c.nodeType == 1 and c.tagName == "h:head"][0]
    body = [c for c in html.childNodes if c.nodeType == 1 and c.tagName == "h:body"][0]
    title = [c for c in head.childNodes if c.nodeType == 1 and c.tagName == "h:title"][0]
    model = [c for c in head.childNodes if c.nodeType == 1 and c.tagName == "model"][0]
    inst = [c for c in model.childNodes if c.nodeType == 1 and c.tagName == "instance"][0]
    root = [c for c in inst.childNodes if c.nodeType == 1][0]
    sub = [c for c in model.childNodes if c.nodeType == 1 and c.tagName == "submission"]
    binds = {c.getAttribute("nodeset"): c for c in model.childNodes if c.nodeType == 1 and c.tagName == "bind"}
    meta = [c for c in root.childNodes if c.nodeType == 1 and c.tagName == "meta"]
    meta_kids = [c.tagName for m in meta for c in m.childNodes if c.nodeType == 1]
    rn = root.tagName
    return {
        "title": "".join(c.data for c in title.childNodes if c.nodeType == 3),
        "root_name": rn,
        "root_attrs": start_tag_attrs(xform, "<instance>"),
        "submission": None if not sub else start_tag_attrs(xform, 'odk:xforms-version="1.0.0">'),
        "n_submission": len(sub),
        "body_class": body.getAttribute("class") if body.hasAttribute("class") else None,
        "html_attrs": start_tag_attrs(xform, "?>"),
        "instanceID": binds[f"/{rn}/meta/instanceID"].getAttribute("jr:preload") if "instanceID" in meta_kids and f"/{rn}/meta/instanceID" in binds else None,
        "instanceName": binds[f"/{rn}/meta/instanceName"].getAttribute("calculate") if "instanceName" in meta_kids and f"/{rn}/meta/instanceName" in binds else None,
        "meta_kids": meta_kids,
    }


def canon_text(h, nsmap_len=7):
    def kv(l):
        return "-" if l is None else ";".join(f"{k}={v}" for k, v in l)
    return "\x01".join([h["title"], h["root_name"], kv(h["root_attrs"]), kv(h["submission"]), h["body_class"] if h["body_class"] is not None else "-",
                        kv(h["html_attrs"][nsmap_len:]), h["instanceID"] if h["instanceID"] is not None else "-",
                        h["instanceName"] if h["instanceName"] is not None else "-"])


def dict_of(form):
    """the dict a reader would deliver: an empty cell is no entry of its row, its column is still a header"""
    d = forms.as_dict(form)
    for k, v in list(d.items()):
        if isinstance(v, list) and not k.endswith("_header") and k != "sheet_names":
            d[k] = [{h: c for h, c in r.items() if c != ""} for r in v]
    return d


class HeaderOp(Op):
    """the header of real forms against the settings model"""
    name = "D.header"
    imports = ["PX.Model.Bind", "PX.Model.Settings", "PX.Gen.Top", "PX.Gen.Settings"]
    fn = ("fun p => let '(s, attribute, fn, fb, dl) := p in let root := json_root s fn fb dl in "
          "let kv := fun (l : list (list N * list N)) => join [59%N] (map (fun x => fst x ++ [61%N] ++ snd x) l) in "
          "match meta_children s with None => [69%N] | Some m => "
          "join [1%N] [title_of root; root_name_of root; kv (root_attrs root attribute); "
          "match submission_of root with Some d => kv d | None => [45%N] end; "
          "match body_class root with Some c => c | None => [45%N] end; "
          "kv (skipn (length NSMAP) (nsmap_of root)); "
          "match find (fun x => seqb (fst x) s_instanceID) m with Some b => getd s_preload (snd b) [] | None => [45%N] end; "
          "match find (fun x => seqb (fst x) s_instanceName) m with Some b => getd s_calculate (snd b) [] | None => [45%N] end] end")
    in_ty = "(list (list N * list N) * list (list N * list N) * option (list N) * option (list N) * option (list N))"
    n_quick, n_thorough = 300, 3000

    def generate(self, rng, n):
        cases = []
        for _ in range(n):
            spelled, canon, attribute = gen_settings(rng, hostile_attr=True)
            form_name = rng.choice([None, None, "fn_arg"])
            dl = rng.choice([None, "Deutsch"])
            survey = [{"type": "text", "name": "q", "label": "Q"}]
            form = {"survey": survey}
            if spelled:
                form["settings"] = [spelled]
            st, r = xf.convert_form(dict_of(form), form_name=form_name, default_language=dl)
            if st == "ok":
                exp = canon_text(extract_header(r.xform))
            elif st == "pyxerr" and "Cannot omit instanceID" in str(r):
                exp = "E"
            else:
                continue

            def opt(x):
                return "None" if x is None else f"(Some {cstr(x)})"
            pairs = lambda l: clist([f"({cstr(k)}, {cstr(v)})" for k, v in l], "(list N * list N)")   # noqa: E731
            coq = f"({pairs(canon)}, {pairs(attribute)}, {opt(form_name)}, None, {opt(dl)})"
            cases.append({"coq": coq, "expected": exp, "desc": {"settings": spelled, "form_name": form_name, "default_language": dl},
                          "class": f"settings={min(len(canon), 6)},attr={len(attribute)}", "nontrivial": len(canon) > 1})
        return cases


def ops(tier):
    return [HeaderOp()]


# ---- direct oracle: the documented placement table, written here independently ---------------------------------
NSMAP_STD = ["xmlns", "xmlns:h", "xmlns:ev", "xmlns:xsd", "xmlns:jr", "xmlns:orx", "xmlns:odk"]
YES = {"yes", "Yes", "YES", "true", "True", "TRUE", "true()"}


def expected_header(canon, attribute, form_name, file_stem):
    s = dict(canon)
    idv = s.get("id_string", file_stem if file_stem is not None else "data")
    e = {"title": s.get("title", idv), "root_name": s.get("name", form_name if form_name is not None else "data")}
    attrs = []
    for k, v in attribute:
        if k not in [a for a, _ in attrs]:
            attrs.append((k, v))
    attrs = [(k, v) for k, v in attrs]
    fixed = [("id", idv)] + [(a, s[f]) for a, f in (("xmlns", "instance_xmlns"), ("version", "version"), ("odk:prefix", "prefix"), ("odk:delimiter", "delimiter")) if f in s]
    for k, v in fixed:
        if k in [a for a, _ in attrs]:
            attrs = [(a, v if a == k else w) for a, w in attrs]
        else:
            attrs.append((k, v))
    e["root_attrs"] = attrs
    sub = []
    if "submission_url" in s:
        sub += [("action", s["submission_url"]), ("method", "post")]
    if "public_key" in s:
        sub.append(("base64RsaPublicKey", s["public_key"]))
    if "auto_send" in s:
        sub.append(("orx:auto-send", s["auto_send"]))
    if "auto_delete" in s:
        sub.append(("orx:auto-delete", s["auto_delete"]))
    e["submission"] = sub or None
    e["body_class"] = s.get("style")
    decl = {}
    for tok in s.get("namespaces", "").split():
        if "=" not in tok:
            continue
        prefix, uri = tok[:tok.index("=")], tok[tok.index("=") + 1:]      # the first "=" ends the prefix; the URI may hold more
        if prefix and f"xmlns:{prefix}" not in NSMAP_STD and f"xmlns:{prefix}" not in decl:
            decl[f"xmlns:{prefix}"] = uri.replace('"', "").replace("'", "")
        elif prefix and f"xmlns:{prefix}" in decl:
            decl[f"xmlns:{prefix}"] = uri.replace('"', "").replace("'", "")
    e["ns"] = list(decl.items())
    omit = s.get("omit_instanceID") in YES
    e["instanceID"] = None if omit else s.get("instance_id", "uid")
    e["instanceName"] = s.get("instance_name")
    e["rejected"] = omit and "public_key" in s
    return e


def run_case(rng):
    spelled, canon, attribute = gen_settings(rng)
    form_name = rng.choice([None, None, "fn_arg"])
    dl = rng.choice([None, "Deutsch"])
    survey = [{"type": "text", "name": "q", "label": "Q"}]
    if rng.random() < 0.3:
        survey.append({"type": "begin group", "name": "g", "label": "G"})
        survey.append({"type": "integer", "name": "n", "label": "N"})
        survey.append({"type": "end group"})
    form = {"survey": survey}
    if spelled:
        # sometimes an empty row between the header row and the values: the settings are the first row that has a value
        form["settings"] = [{}, spelled] if rng.random() < 0.15 and any(v != "" for v in spelled.values()) else [spelled]
    delivery = rng.choice(["dict", "dict", "md", "xlsx-path", "xlsx-bytes", "md-path", "md-path.txt", "md-path.MD", "md-path.", "xlsx-path.XLSX", "xlsx-path.dat", "xlsx-gap", "xlsx-gap"])
    if delivery.startswith("md") and not forms.md_representable({sh: [{k: v for k, v in r.items() if v != ""} for r in rows] for sh, rows in form.items()}):
        delivery = "dict"
    stem = None
    return spelled, canon, attribute, form_name, dl, form, delivery, stem


def convert_delivery(form, delivery, form_name, dl, stem_name="My Survey_v2"):
    from pyxform.xls2xform import convert
    from pyxform.errors import PyXFormError
    import copy
    tmp = None
    stem = None
    try:
        if delivery == "dict":
            arg, kw = copy.deepcopy(dict_of(form)), {}
        elif delivery == "md":
            arg, kw = forms.as_md(form), {"file_type": ".md"}
        elif delivery == "xlsx-bytes":
            arg, kw = forms.as_xlsx_bytes(form), {}
        elif delivery == "xlsx-gap":
            # a spacer column (blank header cell, no data) to the left of named columns: every column keeps its own cells
            import io as _io
            from openpyxl import Workbook
            wb = Workbook()
            wb.remove(wb.active)
            for sheet, rows in form.items():
                ws = wb.create_sheet(title=sheet)
                hs = forms.headers_of(rows)
                gap = 1 if len(hs) > 1 else 0
                ws.append(hs[:gap] + ([None] if gap else []) + hs[gap:])
                for r in rows:
                    vals = [r.get(h) for h in hs]
                    ws.append(vals[:gap] + ([None] if gap else []) + vals[gap:])
            bio = _io.BytesIO()
            wb.save(bio)
            arg, kw = bio.getvalue(), {}
        else:
            tmp = tempfile.mkdtemp(prefix="c11_")
            ext = ".xlsx" if delivery == "xlsx-path" else ".md"
            if "." in delivery:
                # a suffix the reader does not recognise: the content is sniffed, the file name still names the form
                ext = delivery[delivery.index("."):].rstrip(".")
            p = os.path.join(tmp, stem_name + ext)
            if delivery.startswith("xlsx"):
                Path(p).write_bytes(forms.as_xlsx_bytes(form))
            else:
                Path(p).write_text(forms.as_md(form), encoding="utf-8")
            arg, kw, stem = p, {}, stem_name
        try:
            return "ok", convert(arg, form_name=form_name, default_language=dl, **kw), stem
        except PyXFormError as e:
            return "pyxerr", e, stem
        except Exception as e:   # noqa: BLE001
            return "crash", e, stem
    finally:
        if tmp:
            shutil.rmtree(tmp, ignore_errors=True)


def compare(h, e):
    probs = []
    if h["title"] != e["title"]:
        probs.append(f"title {h['title']!r} instead of {e['title']!r}")
    if h["root_name"] != e["root_name"]:
        probs.append(f"instance root is <{h['root_name']}> instead of <{e['root_name']}>")
    if h["root_attrs"] != e["root_attrs"]:
        probs.append(f"root attributes {h['root_attrs']} instead of {e['root_attrs']}")
    if h["n_submission"] > 1 or h["submission"] != e["submission"]:
        probs.append(f"submission {h['submission']} instead of {e['submission']}")
    if h["body_class"] != e["body_class"]:
        probs.append(f"body class {h['body_class']!r} instead of {e['body_class']!r}")
    if [k for k, _ in h["html_attrs"][:7]] != NSMAP_STD or h["html_attrs"][7:] != e["ns"]:
        probs.append(f"namespace declarations {h['html_attrs'][7:]} instead of {e['ns']}")
    if h["instanceID"] != e["instanceID"]:
        probs.append(f"instanceID preload {h['instanceID']!r} instead of {e['instanceID']!r}")
    if h["instanceName"] != e["instanceName"]:
        probs.append(f"instanceName calculate {h['instanceName']!r} instead of {e['instanceName']!r}")
    want_meta = ([] if e["instanceID"] is None else ["instanceID"]) + ([] if e["instanceName"] is None else ["instanceName"])
    if h["meta_kids"] != want_meta:
        probs.append(f"meta children {h['meta_kids']} instead of {want_meta}")
    return probs


def _check(args):
    seed, i = args
    rng = rng_for(seed, PID, "oracle", i)
    spelled, canon, attribute, form_name, dl, form, delivery, _ = run_case(rng)
    st, r, stem = convert_delivery(form, delivery, form_name, dl)
    e = expected_header(canon, attribute, form_name, stem)
    desc = {"form": form, "delivery": delivery, "form_name": form_name, "default_language": dl, "case": i}
    if e["rejected"]:
        if st == "pyxerr" and "Cannot omit instanceID" in str(r):
            return {"i": i, "ok": True, "key": ("rej", i), "n": len(canon)}
        return {"i": i, "input": desc, "what": f"omit_instanceID with public_key must be rejected, got {st}"}
    if st != "ok":
        return {"i": i, "input": desc, "what": f"conversion failed: {st}: {str(r)[:200]}"}
    try:
        probs = compare(extract_header(r.xform), e)
        both = "form_id" in spelled and "id_string" in spelled
        warned = any("form_id and id_string column headers are both" in w for w in r.warnings)
        if both != warned:
            probs.append(f"form_id and id_string headers both present: {both}, warning about it: {warned}")
        # no leak: drop one setting, only its own places may change
        if canon and not probs and rng.random() < 0.5:
            drop = rng.choice([k for k, _ in canon])
            if drop == "namespaces" and any(":" in a for a, _ in attribute):
                drop = canon[0][0] if canon[0][0] != "namespaces" else None    # an unbound attribute prefix is C01's finding F2
            if drop is None:
                return {"i": i, "ok": True, "key": hash(r.xform), "n": len(canon), "delivery": delivery}
            inv = {al: k for k, als in SETTING_ALIASES.items() for al in als}
            form2 = {**form, "settings": [{h: v for h, v in spelled.items() if inv.get(h) != drop}]}
            if not form2["settings"][0]:
                del form2["settings"]
            st2, r2, stem2 = convert_delivery(form2, delivery, form_name, dl)
            e2 = expected_header([(k, v) for k, v in canon if k != drop], attribute, form_name, stem2)
            if st2 == "ok" and not e2["rejected"]:
                probs += [f"after dropping {drop}: {p}" for p in compare(extract_header(r2.xform), e2)]
            elif st2 != "ok" and not e2["rejected"]:
                probs.append(f"after dropping {drop}: conversion failed {st2}")
    except Exception as ex:   # noqa: BLE001
        return {"i": i, "input": desc, "what": f"oracle could not audit: {ex!r}"}
    if probs:
        return {"i": i, "input": desc, "what": "; ".join(probs)[:900], "xform": r.xform[:2500]}
    return {"i": i, "ok": True, "key": hash(r.xform), "n": len(canon), "delivery": delivery}


def oracle(seed, tier, searching=False):
    n = 600 if tier == "quick" else 10000
    if searching:
        n *= 3
    res = pmap(_check, [(seed, i) for i in range(n)])
    fails = [r for r in res if "what" in r]
    oks = [r for r in res if r.get("ok")]
    deliveries = {}
    for r in oks:
        deliveries[r.get("delivery", "rejected")] = deliveries.get(r.get("delivery", "rejected"), 0) + 1
    return {
        "evaluations": len(res), "distinct_nontrivial": len({r["key"] for r in oks if r["n"] > 0}),
        "rule": "random subsets of 18 settings with arbitrary values, alias spellings (form_title/set_form_title/title, form_id/...), shuffled "
                "column order, attribute:: columns, with and without form_name/default_language arguments, delivered as dict, md text, xlsx bytes, "
                "and xlsx/md files on disk (file-stem fallback); the header of the real XForm (minidom: title, root name, root attributes in order, "
                "submission, body class, xmlns declarations, meta children and their binds) must equal the documented placement table written "
                "independently in this oracle; dropping one setting must change only its own places; omit_instanceID with public_key is rejected",
        "accepted": len(oks), "deliveries": deliveries,
        "failures": [{"input": f["input"], "what": f["what"], "observed": f.get("xform"),
                      "reproduce": "cd /verif && /venv/bin/python harness/check.py C11 --replay <this file>"} for f in fails[:8]],
        "samples": [{"oracle_case": r["i"], "settings": r["n"]} for r in oks[:3]],
    }


def replay_finding(slug):
    return None


def replay(path: Path) -> int:
    payload = json.loads(Path(path).read_text())
    case_no = payload["input"].get("case")
    seed = payload.get("seed", 20260930)
    for sd in (seed, seed + 1, seed + 2):
        res = _check((sd, case_no))
        if (res.get("input") or {}).get("form") == payload["input"].get("form") or sd == seed:
            if "what" in res:
                print(res["what"])
                print(f"VIOLATION property={PID} replay={path}")
                return 1
    print("no violation on this tree for the replayed case")
    return 0
