"""C12 — container format and delivery channel do not matter."""

from __future__ import annotations

import copy
import datetime
import io
import json
import re
import os
import tempfile
from pathlib import Path

from common import cstr, clist, rng_for
from opbase import Op, pmap
import forms
import xf

PID = "C12"
GUARD = "runs_ok: every run of empty rows (columns) is at most 60 (20); no_dups: no duplicate header"
MODELLED = ("get_excel_column_headers, get_excel_rows, trim_trailing_empty, is_empty, xlsx_value_to_str (coq/Model/Backends.v). "
            "The Markdown reader (_md_table_to_ss_structure, _md_strp_cell, the MD_ patterns) is modelled in coq/Model/Md.v (patterns and function texts pinned). "
            "csv_to_dict's sheet/header/row state machine is modelled in coq/Model/CsvBook.v over the RFC 4180 reader of Spec/Csv.v (that csv.reader implements RFC 4180 on these texts is checked by op C.csv_parse of C09). "
            "openpyxl/xlrd deliver the grid; file-type dispatch and delivery channels are decided on the "
            "implementation by the cross-container oracle (testing); .xls is exercised through duck-typed xlrd sheets injected at "
            "xlrd_open (no .xls writer exists in this sandbox)")
ASSUMPTIONS = ["str(float) is CPython's shortest round-trip repr (oracle, not modelled)",
               "py_space table equals CPython's str.isspace on every code point the generators emit (checked at start-up)"]

WS = [9, 10, 11, 12, 13, 28, 29, 30, 31, 32, 133, 160, 5760, *range(8192, 8203), 8232, 8233, 8239, 8287, 12288]


def check_space_table():
    bad = [c for c in range(0x3100) if chr(c).isspace() != (c in WS)]
    if bad:
        raise RuntimeError(f"py_space table disagrees with CPython on {bad[:5]}")


def opt_str(x):
    return "None" if x is None else f"(Some {cstr(x)})"


def rand_header(rng):
    r = rng.random()
    if r < 0.3:
        return None
    if r < 0.4:
        return rng.choice(["", " ", "  ", " ", "\t"])
    base = rng.choice(["type", "name", "label", "label::en", "hint", "my  col", " relevant ", "a   b  c", "x y", "Q", "calc"])
    if rng.random() < 0.4:
        base += str(rng.randrange(100))
    return base


class HeadersOp(Op):
    name = "A.grid_headers"
    imports = ["PX.Base.PyStr", "PX.Model.Backends", "PX.Gen.Backends"]
    fn = ("fun row => match get_excel_column_headers py_strip (N.to_nat MAX_ADJACENT_EMPTY_COLUMNS) row with "
          "| Ok hs => join [1%N] (map (fun h => match h with Some s => 83%N :: s | None => [78%N] end) hs) | PyxErr m => 69%N :: m end")
    in_ty = "list (option (list N))"
    n_quick, n_thorough = 300, 3000

    def generate(self, rng, n):
        from pyxform.xls2json_backends import get_excel_column_headers, is_empty
        from pyxform.errors import PyXFormError
        cases = []
        for i in range(n):
            row = []
            for _ in range(rng.randint(0, 6)):
                row.append(rand_header(rng))
                if rng.random() < 0.35:
                    row += [None] * rng.choice([1, 2, 19, 20, 21, 22, 5])
            if rng.random() < 0.3:
                row += [None] * rng.choice([1, 3, 20, 21, 25])
            try:
                hs = get_excel_column_headers(first_row=iter(row))
                exp = "\x01".join("N" if h is None else "S" + h for h in hs)
            except PyXFormError as e:
                exp = "E" + str(e).replace("Duplicate column header: ", "")
            # the model receives the row after is_empty (None = empty cell)
            coq = clist([opt_str(None if is_empty(h) else h) for h in row], "(option (list N))")
            longest = max((len(r) for r in "".join("e" if is_empty(h) else "x" for h in row).split("x")), default=0)
            cases.append({"coq": coq, "expected": exp, "desc": {"first_row": row}, "class": f"longest_empty_run={'>20' if longest > 20 else ('=20' if longest == 20 else '<20')}"})
        return cases


class FakeCell:
    def __init__(self, value, ctype=1):
        self.value = value
        self.ctype = ctype


class RowsOp(Op):
    name = "A.grid_rows"
    imports = ["PX.Model.Backends", "PX.Gen.Backends"]
    fn = ("fun rows => join [2%N] (map (fun d => join [1%N] (map (fun kv => fst kv ++ [61%N] ++ snd kv) d)) "
          "(get_excel_rows (N.to_nat MAX_ADJACENT_EMPTY_ROWS) rows))")
    in_ty = "list (list (list N * list N))"
    n_quick, n_thorough = 250, 3000

    def generate(self, rng, n):
        from pyxform.xls2json_backends import get_excel_rows
        cases = []
        headers = ["a", None, "b", "c"]
        for i in range(n):
            rows = []
            for _ in range(rng.randint(0, 5)):
                r = [rng.choice([None, "", " ", "v", "w x", "1"]) for _ in range(rng.choice([2, 4, 4, 5]))]
                rows.append(r)
                if rng.random() < 0.4:
                    rows += [[None] * 4 for _ in range(rng.choice([1, 2, 59, 60, 61, 62, 7]))]
            if rng.random() < 0.3:
                rows += [[None, " ", None, ""] for _ in range(rng.choice([1, 60, 61, 3]))]
            cellrows = [tuple(FakeCell(v) for v in r) for r in rows]
            got = get_excel_rows(headers=headers, rows=iter(cellrows), cell_func=lambda c, rn, k: c.value.strip())
            exp = "\x02".join("\x01".join(f"{k}={v}" for k, v in d.items()) for d in got)
            # the model receives row dicts (non-empty cells under non-empty headers), as the loop builds them
            from pyxform.xls2json_backends import is_empty
            dicts = []
            for r in rows:
                d = []
                for ci, h in enumerate(headers):
                    if h is None or ci >= len(r) or is_empty(r[ci]):
                        continue
                    d.append((h, r[ci].strip()))
                dicts.append(d)
            coq = clist([clist([f"({cstr(k)}, {cstr(v)})" for k, v in d], "(list N * list N)") for d in dicts], "(list (list N * list N))")
            run = max((len(x) for x in "".join("x" if d else "e" for d in dicts).split("x")), default=0)
            cases.append({"coq": coq, "expected": exp, "desc": {"rows": rows}, "class": f"longest_empty_run={'>60' if run > 60 else ('=60' if run == 60 else '<60')}"})
        return cases


class CellOp(Op):
    name = "A.cell_xlsx"
    imports = ["Coq.ZArith.ZArith", "PX.Base.PyStr", "PX.Model.Backends"]
    fn = "fun c => match clean_cell py_strip py_isspace c with Some s => 83%N :: s | None => [78%N] end"
    in_ty = "cell"
    n_quick, n_thorough = 300, 3000

    def generate(self, rng, n):
        from pyxform.xls2json_backends import is_empty, xlsx_value_to_str
        cases = []
        for i in range(n):
            r = rng.random()
            if r < 0.1:
                v, coq = None, "CNone"
            elif r < 0.2:
                v = rng.random() < 0.5
                coq = f"(CBool {'true' if v else 'false'})"
            elif r < 0.35:
                v = rng.choice([0, 1, -1, 7, 42, 10**12, -305, 2024010100])
                coq = f"(CInt ({v})%Z)"
            elif r < 0.5:
                z = rng.choice([0, 1, -1, 3, 100, 2024, -17, 10**15])
                v = float(z)
                coq = f"(CFloatIntegral ({z})%Z)"
            elif r < 0.6:
                v = rng.choice([1.5, 0.1, -2.25, 3.14159, 1e-7, 2.5e20, 1 / 3, 1e16, 123456789.125, 0.00001, -3.2e-9, 1.5e-300, 5e-324, 0.0001, 2.5e-5, -1e-5, 9.999e-5])
                coq = f"(CFloatIntegral ({int(v)})%Z)" if v.is_integer() else f"(CFloatOther {cstr(str(v))})"
            elif r < 0.65:
                v = rng.choice([datetime.datetime(2020, 1, 2, 3, 4, 5), datetime.time(1, 2, 3), datetime.datetime(1999, 12, 31)])
                coq = f"(CDate {cstr(str(v))})"
            else:
                v = rng.choice(["", " ", " ", "abc", " a b ", "a b", " x ", "\t\n", "é", "x ", "0", "TRUE", "1.0", "a  b"])
                coq = f"(CStr {cstr(v)})"
            val = v.strip() if isinstance(v, str) else v
            out = None if is_empty(val) else xlsx_value_to_str(val)
            cases.append({"coq": coq, "expected": "N" if out is None else "S" + out, "desc": {"value": repr(v)}, "class": type(v).__name__})
        return cases


MD_CELLS = ["type", "name", "label", "text", "q1", "A b", "", " ", "  ", "a \\| b", "x#y", "# c", "#", "é", "a\\\\", "\\|", "-", "--", "a-b", "\u00a0", "\u2003x", "\tt", "a\\", "1", "survey", "choices", "Survey", "`"]


def md_line(rng):
    k = rng.random()
    if k < 0.08:
        return rng.choice(["", " ", "# comment", "  # c | d", "text only", "|", "||", "| |", "|-|", "|---|---|", "| --- | --- |", " |-|-| # x"])
    if k < 0.3:
        return rng.choice(["", " ", "\t"]) + "| " + rng.choice(["survey", "choices", "settings", "Survey", "s2", "x y"]) + rng.choice([" |", " | ", " |  # c", "|", " | | |", " | a |"])
    cells = [rng.choice(MD_CELLS) for _ in range(rng.randint(0, 5))]
    return (rng.choice(["", " ", "  "]) + "|" + rng.choice(["", " ", "  "]) + "|" + "|".join(rng.choice(["", " "]) + c + rng.choice(["", " "]) for c in cells)
            + rng.choice(["|", "| ", "|  # tail", "", "| x"]))


class MdOp(Op):
    """_md_table_to_ss_structure (comments, separators, escaped pipes, ragged rows, text after the last pipe) against Model/Md.v"""
    name = "B.md_structure"
    imports = ["PX.Model.Md"]
    fn = "show_md"
    in_ty = "list N"
    n_quick, n_thorough = 500, 5000

    def generate(self, rng, n):
        from pyxform.xls2json_backends import _md_table_to_ss_structure

        def show(res):
            out = ""
            for k, v in res.items():
                out += ("K" + k if k is not False else "F") + "\x02"
                out += "F" if v is False else "R" + "".join("\x01".join(("S" + c) if c is not None else "N" for c in r) + "\x03" for r in v)
                out += "\x04"
            return out
        cases = []
        for _ in range(n):
            text = rng.choice(["\n", "\n", "\r\n"]).join(md_line(rng) for _ in range(rng.randint(0, 7)))
            res = _md_table_to_ss_structure(text)
            cases.append({"coq": cstr(text), "expected": show(res), "desc": {"md": text}, "class": f"{min(len(res), 3)} sheets", "nontrivial": any(v for v in res.values())})
        return cases


CSV_CELLS = ["type", "name", "label", "text", "q1", "A b", "", " ", "x", " pad ", "1", "survey", "é", "a=b", "\u00a0", "\tt", "A  b", "a   b", "", "name"]
CSV_SHEETS = ["survey", "choices", "settings", "Survey", "notes", "entities", "external_choices", "osm", "x y", "", " survey", "survey ", "sheet_names", "survey_header", "SURVEY"]


class CsvBookOp(Op):
    """csv_to_dict's sheet/header/row state machine (over the rows csv.reader delivers) against Model/CsvBook.v"""
    name = "B.csv_book"
    imports = ["PX.Model.Warnings", "PX.Model.CsvBook"]
    fn = "fun rows => show_book (csv_book lower_ascii rows)"
    in_ty = "list (list (list N))"
    n_quick, n_thorough = 400, 4000

    def generate(self, rng, n):
        import csv
        from io import StringIO
        from pyxform.xls2json_backends import csv_to_dict
        from pyxform.errors import PyXFormError, PyXFormReadError

        def line():
            k = rng.random()
            if k < 0.05:
                return rng.choice(["", " ", ",", ",,"])
            if k < 0.3:
                return rng.choice(CSV_SHEETS) + rng.choice(["", "", ",", ",a", ", "])
            return rng.choice(["", "", "", " ", "x"]) + "," + ",".join(rng.choice(CSV_CELLS) for _ in range(rng.randint(0, 5)))

        def show(d):
            out = ""
            for k, v in d.items():
                out += k + "\x02"
                if k == "sheet_names":
                    out += "N" + "\x01".join(v)
                elif k.endswith("_header"):
                    out += "H" + ("\x01".join(v[0].keys()) if v else "")
                else:
                    out += "R" + "".join("".join(f"{a}={b}\x01" for a, b in r.items()) + "\x03" for r in v)
                out += "\x04"
            return out
        cases = []
        tries = 0
        while len(cases) < n and tries < 10 * n:
            tries += 1
            text = "\n".join(line() for _ in range(rng.randint(1, 8))) + "\n"
            try:
                d = csv_to_dict(text)
                expected, cls, nontrivial = show(d), f"{min(len(d['sheet_names']), 3)} sheets", any(isinstance(v, list) and v and k != "sheet_names" for k, v in d.items())
            except PyXFormReadError:
                continue
            except PyXFormError as e:
                # an error of the content (not of reading): a repeated column header
                if not str(e).startswith("Duplicate column header: "):
                    raise
                expected, cls, nontrivial = "E" + str(e)[len("Duplicate column header: "):], "duplicate header", True
            rows = list(csv.reader(StringIO(text, newline="")))
            cases.append({"coq": clist([clist([cstr(c) for c in r], "(list N)") for r in rows], "(list (list N))"), "expected": expected, "desc": {"csv": text},
                          "class": cls, "nontrivial": nontrivial})
        return cases


class MdBookOp(Op):
    """md_to_dict's sheet/header/row processing (over the structure of B.md_structure) against Model/MdBook.v"""
    name = "B.md_book"
    imports = ["PX.Model.Warnings", "PX.Model.Md", "PX.Model.CsvBook", "PX.Model.MdBook"]
    fn = "fun text => show_book (md_book (md_structure text))"
    in_ty = "list N"
    n_quick, n_thorough = 400, 4000

    def generate(self, rng, n):
        from pyxform.xls2json_backends import md_to_dict
        from pyxform.errors import PyXFormError, PyXFormReadError

        def show(d):
            out = ""
            for k, v in d.items():
                out += k + "\x02"
                if k == "sheet_names":
                    out += "N" + "\x01".join(v)
                elif k.endswith("_header"):
                    out += "H" + ("\x01".join(v[0].keys()) if v else "")
                else:
                    out += "R" + "".join("".join(f"{'' if a is None else a}={b}\x01" for a, b in r.items()) + "\x03" for r in v)
                out += "\x04"
            return out

        def line():
            k = rng.random()
            if k < 0.3:
                return "| " + rng.choice(["survey", "choices", "settings", "Survey", "notes", "x y", "external_choices", "SURVEY", "Sheet1"]) + " |"
            cells = [rng.choice(["type", "name", "label", "text", "q1", "A b", "", " ", "", "A  b", "name", "x", "1"]) for _ in range(rng.randint(0, 6))]
            return "| | " + " | ".join(cells) + " |"
        cases = []
        tries = 0
        while len(cases) < n and tries < 10 * n:
            tries += 1
            text = "\n".join(line() for _ in range(rng.randint(1, 9))) + "\n"
            try:
                d = md_to_dict(text)
                expected, cls = show(d), f"{min(len(d['sheet_names']), 3)} sheets"
            except PyXFormReadError:
                continue
            except PyXFormError as e:
                if not str(e).startswith("Duplicate column header: "):
                    raise
                expected, cls = "E" + str(e)[len("Duplicate column header: "):], "duplicate header"
            cases.append({"coq": cstr(text), "expected": expected, "desc": {"md": text}, "class": cls, "nontrivial": "R" in expected or expected.startswith("E")})
        return cases


def ops(tier):
    check_space_table()
    return [HeadersOp(), RowsOp(), CellOp(), MdOp(), CsvBookOp(), MdBookOp()]


# ---- direct oracle: the same workbook through every container and channel ----------------------------
class FakeXlrdSheet:
    def __init__(self, name, grid):
        self.name = name
        self.grid = grid
        self.nrows = len(grid)

    def get_rows(self):
        return iter([[c for c in row] for row in self.grid])

    def cell(self, r, c):
        row = self.grid[r]
        return row[c] if c < len(row) else FakeCell("", 0)


class FakeXlrdBook:
    datemode = 0

    def __init__(self, sheets):
        self._sheets = sheets

    def sheets(self):
        return self._sheets

    def release_resources(self):
        pass


def typed(v):
    """(value for openpyxl, FakeCell for xlrd) for a text cell, typed when the text is a canonical number/bool"""
    if v is None:
        return None, FakeCell("", 0)
    if v in ("TRUE", "FALSE"):
        return v == "TRUE", FakeCell(1 if v == "TRUE" else 0, 4)
    if v.isdigit() and (v == "0" or not v.startswith("0")) and len(v) < 15:
        return int(v), FakeCell(float(v), 2)
    return v, FakeCell(v, 1)


def grids(form, rng, typed_cells, pad, interior_gap=0):
    """per sheet: (header list, row lists) with optional interior blank rows / empty columns / trailing junk"""
    out = {}
    for sheet, rows in form.items():
        hs = forms.headers_of(rows)
        cols = list(hs)
        if pad and rng.random() < 0.5 and len(cols) > 1:
            k = rng.choice([1, 2, 19, 20])
            pos = rng.randint(1, len(cols) - 1)
            cols = cols[:pos] + [None] * k + cols[pos:]
        grid = [cols]
        for ri, r in enumerate(rows):
            if interior_gap and sheet in ("survey", "choices") and ri == len(rows) // 2 and ri > 0:
                grid += [[None] * len(cols) for _ in range(interior_gap)]      # a run of empty rows INSIDE the data (the readers tolerate up to 60)
            grid.append([r.get(h) if h is not None else None for h in cols])
        if pad and rng.random() < 0.5:
            grid += [[None] * len(cols) for _ in range(rng.choice([1, 5, 60, 70]))]
        if pad and rng.random() < 0.3:
            grid[0] = grid[0] + [None] * rng.choice([1, 20, 25])
        out[sheet] = grid
    return out


def xlsx_bytes(gr, typed_cells):
    from openpyxl import Workbook
    wb = Workbook()
    wb.remove(wb.active)
    for sheet, grid in gr.items():
        ws = wb.create_sheet(title=sheet)
        for ri, row in enumerate(grid):
            ws.append([(typed(v)[0] if (typed_cells and ri > 0) else v) for v in row])
            for ci, v in enumerate(row):
                if isinstance(v, str) and v.startswith("="):
                    ws.cell(row=ri + 1, column=ci + 1).data_type = "s"   # text, not a formula
    bio = io.BytesIO()
    wb.save(bio)
    return bio.getvalue()


def convert_xls_fake(gr, typed_cells, **kw):
    import pyxform.xls2json_backends as be
    from pyxform.xls2xform import convert
    sheets = []
    for sheet, grid in gr.items():
        g = [[(typed(v)[1] if (typed_cells and ri > 0) else (FakeCell(v, 1) if v is not None else FakeCell("", 0))) for v in row]
             for ri, row in enumerate(grid)]
        sheets.append(FakeXlrdSheet(sheet, g))
    orig = be.xlrd_open
    be.xlrd_open = lambda file_contents=None, **k: FakeXlrdBook(sheets)
    try:
        return convert(b"fake-xls", file_type=".xls", **kw)
    finally:
        be.xlrd_open = orig


def result_key(r, rows_shifted=False):
    if rows_shifted:
        return (r.xform, tuple(re.sub(r"\[row : \d+\]", "[row : ?]", w) for w in r.warnings), r.itemsets)
    return (r.xform, tuple(r.warnings), r.itemsets)


def _check(args):
    seed, i = args
    rng = rng_for(seed, PID, "oracle", i)
    from pyxform.xls2xform import convert
    from pyxform.errors import PyXFormError
    prof = forms.Profile(adversarial=0.25, max_rows=rng.choice([3, 6, 9]), p_ref_in_label=0.2)
    form = forms.gen_form(rng, prof)
    # representable everywhere: stripped, non-empty, no newlines/pipes (md), no smart-quote/space-run differences
    ok_everywhere = forms.md_representable(form) and all("#" not in v and "\\" not in v and "  " not in v
                                                         for rows in form.values() for r in rows for kv in r.items() for v in kv)
    if not ok_everywhere:
        return {"i": i, "skip": "not representable in md"}
    if rng.random() < 0.3:
        form.setdefault("settings", [{}])
        if not form["settings"][0]:
            form["settings"][0]["form_title"] = "T"
    if rng.random() < 0.4:    # numeric / boolean looking cells that a spreadsheet would type
        for r in form["survey"]:
            if r["type"].split()[0] in ("integer", "int") and rng.random() < 0.7:
                r["default"] = rng.choice(["5", "0", "12", "100"])
            if r.get("name") and rng.random() < 0.2 and not r["type"].startswith(("begin", "end")):
                r["required"] = rng.choice(["TRUE", "FALSE"])
    if i % 6 == 1:
        # a sheet that is not part of XLSForm, or a misspelt one: every reader ignores its rows and the spelling hint is the same
        rx = rng_for(seed, PID, "extra-sheet", i)
        nm = rx.choice(["notes", "Sheet1", "setting", "choice", "surveys_old", "sheet_names"])
        if nm not in form and not (nm == "setting" and "settings" in form) and not (nm == "choice" and "choices" in form):
            form[nm] = [{"a": "x", "b": "y"}, {"a": "1"}]
    if i % 5 == 3:
        # blank rows inside the data (and unlabelled groups below them, which draw a row-numbered warning): every container, text ones included,
        # must count them, so that the row numbers in the messages are the same everywhere
        rb = rng_for(seed, PID, "blank-rows", i)
        for sh in ("survey", "choices"):
            rows_ = form.get(sh)
            if rows_ and len(rows_) >= 2:
                for _ in range(rb.choice([1, 1, 2])):
                    rows_.insert(rb.randrange(1, len(rows_)), {})
        for r_ in form["survey"]:
            if r_.get("type", "").startswith(("begin group", "begin repeat")) and rb.random() < 0.7:
                for k_ in [k_ for k_ in r_ if k_.startswith(("label", "media", "image", "audio", "video", "big-image", "hint"))]:
                    del r_[k_]
    commas = False
    if i % 6 == 0:
        # a Markdown text holding enough commas to look like CSV to a reader that only counts them: delivered untyped it is still Markdown
        rc_ = rng_for(seed, PID, "commas", i)
        cands_ = [(r_, k_) for r_ in form["survey"] for k_ in r_ if k_.startswith(("label", "hint")) and "${" not in r_[k_]]
        if cands_:
            r_, k_ = rc_.choice(cands_)
            r_[k_] = rc_.choice(["red, green, blue, black, white", "a,b,c,d,e,f", "Yes, no, maybe, never, always, often"])
            commas = True
    multiline = False
    pipes = False
    if i % 4 == 3:
        # a cell holding line breaks (or characters str.splitlines() would break on): representable in csv and spreadsheets, not in md
        rx = rng_for(seed, PID, "multiline", i)
        cands = [(r, k) for r in form["survey"] for k in r if k.startswith(("label", "hint")) and "${" not in r[k]]
        if cands:
            r, k = rx.choice(cands)
            r[k] = rx.choice(["First line\nSecond line", "a\r\nb", "x\u2028y", "p\x85q", "one\n\ntwo", "l1\nl2\nl3", "u\u2029v"])
            multiline = True
    if i % 7 == 5 and not multiline:
        # cells holding pipes: representable in csv and spreadsheets, not in md.  Delivered WITHOUT a file type the text must still reach
        # the CSV reader although it holds enough pipes to look like a Markdown table (defect F11, repaired)
        rx = rng_for(seed, PID, "pipes", i)
        cands = [(r, k) for r in form["survey"] for k in r if k.startswith(("label", "hint")) and "${" not in r[k]]
        if cands:
            r, k = rx.choice(cands)
            r[k] = rx.choice(["a | b | c | d | e | f", "|||||", "x|y|z|1|2|3|4", "| a | b | c |", "one | two | three | four | five | six"])
            multiline = True
            pipes = True
    typed_cells = rng.random() < 0.6
    pad = rng.random() < 0.6
    interior_gap = rng_for(seed, PID, "gap", i).choice([1, 30, 59, 60]) if i % 5 == 2 else 0
    gr = grids(form, rng, typed_cells, pad, interior_gap)
    def base_of(f):
        try:
            return convert(copy.deepcopy(forms.as_dict(f)))
        except PyXFormError as e:
            return ("pyxerr", str(e))
        except Exception:
            return None
    base = base_of(form)
    # spreadsheet cells read non-breaking spaces as plain spaces (documented); text containers keep them
    form_grid = {sh: [{k.replace("\xa0", " "): v.replace("\xa0", " ") for k, v in r.items()} for r in rows] for sh, rows in form.items()}
    base_grid = base if form_grid == form else base_of(form_grid)
    if base is None or base_grid is None:
        return {"i": i, "skip": "crash (C17)"}
    md = forms.as_md(form) if not multiline else ""
    csvs = forms.as_csv(form)
    if i % 5 == 4 and len(form["survey"]) >= 1 and not multiline:
        # a stray cell to the right of the last header cell (first data row of the survey sheet): every reader ignores it
        ml = md.split("\n")
        if len(ml) > 2 and ml[2].startswith("| | "):
            ml[2] = ml[2] + " stray |"
            md = "\n".join(ml)
        cl = csvs.split("\n")
        if len(cl) > 2:
            cl[2] = cl[2] + ',"stray"'
            csvs = "\n".join(cl)
        if len(gr.get("survey", [])) > 1:
            gr["survey"][1] = list(gr["survey"][1]) + [None] * (len(gr["survey"][0]) - len(gr["survey"][1])) + ["stray"]
    xb = xlsx_bytes(gr, typed_cells)
    variants = []
    tmpd = tempfile.mkdtemp(prefix="pxv-c12-")
    try:
        def path_of(data: bytes, suffix):
            p = os.path.join(tmpd, "data" + suffix)    # stem `data` = the default form id, so path delivery agrees with memory
            with open(p, "wb") as fh:
                fh.write(data)
            return p
        variants += [("md/str", lambda: convert(md)), ("md/str+type", lambda: convert(md, file_type=".md")),
                     ("md/bytes", lambda: convert(md.encode("utf-8"))), ("md/BytesIO", lambda: convert(io.BytesIO(md.encode("utf-8")))),
                     ("md/path", lambda: convert(path_of(md.encode("utf-8"), ".md")))]
        variants += [("csv/str+type", lambda: convert(csvs, file_type=".csv")), ("csv/bytes+type", lambda: convert(csvs.encode("utf-8"), file_type=".csv")),
                     ("csv/path", lambda: convert(path_of(csvs.encode("utf-8"), ".csv")))]
        if pipes:
            # the untyped deliveries, first so that they are always among the chosen ones
            variants = [("csv/str", lambda: convert(csvs)), ("csv/bytes", lambda: convert(csvs.encode("utf-8"))),
                        ("csv/path-no-suffix", lambda: convert(path_of(csvs.encode("utf-8"), "")))] + variants
        variants += [("xlsx/bytes", lambda: convert(xb)), ("xlsx/BytesIO+type", lambda: convert(io.BytesIO(xb), file_type=".xlsx")),
                     ("xlsx/path", lambda: convert(path_of(xb, ".xlsx"))), ("xlsm/path", lambda: convert(path_of(xb, ".xlsm"))),
                     ("xlsx/file", lambda: convert(open(path_of(xb, ".xlsx"), "rb")))]
        variants += [("xls/fake", lambda: convert_xls_fake(gr, typed_cells))]
        if multiline:
            variants = [v for v in variants if not v[0].startswith("md")]
        chosen = (variants[:3] if pipes else []) + ([v for v in variants if v[0] in ("md/str", "md/bytes", "md/BytesIO")] if commas and not multiline else []) + rng.sample(variants, 6) + [variants[-1]]
        for name, fn in chosen:
            try:
                r = fn()
                got = result_key(r, bool(interior_gap))
            except PyXFormError as e:
                got = ("pyxerr", str(e))
            except Exception as e:
                return {"i": i, "form": form, "what": f"{name}: crashed with {e!r} while the dict input gives {'a result' if not isinstance(base, tuple) else base}",
                        "variant": name}
            b = base_grid if name.startswith(("xls", "xlsx", "xlsm")) else base
            want = result_key(b, bool(interior_gap)) if not isinstance(b, tuple) else b
            if isinstance(want, tuple) and want and want[0] == "pyxerr":
                if not (isinstance(got, tuple) and got and got[0] == "pyxerr"):
                    return {"i": i, "form": form, "what": f"{name}: converts while the dict input is rejected ({want[1][:100]})", "variant": name}
                continue
            if got != want:
                if isinstance(got, tuple) and got and got[0] == "pyxerr":
                    return {"i": i, "form": form, "what": f"{name}: rejected ({got[1][:200]}) while the dict input converts", "variant": name}
                which = "xform" if got[0] != want[0] else ("warnings" if got[1] != want[1] else "itemsets")
                return {"i": i, "form": form, "what": f"{name}: {which} differs from the dict input's", "variant": name,
                        "observed": {"got": (got[0] if which == "xform" else got[1:])[:1500] if which == "xform" else str(got[1:])[:1500],
                                     "want": (want[0][:1500] if which == "xform" else str(want[1:])[:1500])}}
        # a path whose file name holds dots before the suffix: the default form id (and title) is the stem, all of it
        if i % 4 == 2 and not isinstance(base, tuple):
            rs = rng_for(seed, PID, "stem", i)
            stem = rs.choice(["household.v2", "hh.2024.final", "a.b", "form.v1.0"])
            srow = (form.get("settings") or [{}])[0]
            keys = {"_".join(k.split()).lower() for k in srow}
            suffix, data = rs.choice([(".xlsx", xb), (".csv", csvs.encode("utf-8"))] + ([(".md", md.encode("utf-8"))] if not multiline else []))
            pth = os.path.join(tmpd, stem + suffix)
            with open(pth, "wb") as fh:
                fh.write(data)
            try:
                rr = convert(pth)
            except PyXFormError as e:
                return {"i": i, "form": form, "what": f"path {stem + suffix}: rejected ({str(e)[:150]}) while the dict input converts", "variant": "dotted-stem"}
            root = xf.lparse(rr.xform)
            inst_root = root.find(xf.H + "head").find(xf.XF + "model").find(xf.XF + "instance")[0]
            title = root.find(xf.H + "head").find(xf.H + "title").text
            if not ({"form_id", "id_string"} & keys) and inst_root.get("id") != stem:
                return {"i": i, "form": form, "what": f"path {stem + suffix}: the default form id is {inst_root.get('id')!r}, not the file's stem {stem!r}", "variant": "dotted-stem"}
            if not ({"form_title", "title", "form_id", "id_string"} & keys) and title != stem:
                return {"i": i, "form": form, "what": f"path {stem + suffix}: the default title is {title!r}, not the file's stem {stem!r}", "variant": "dotted-stem"}
    finally:
        import shutil
        shutil.rmtree(tmpd, ignore_errors=True)
    return {"i": i, "ok": True, "typed": typed_cells, "pad": pad, "key": hash(md)}


# ---- second stream: layouts of the grid itself (header rows, sheet names, typed decimals), the same grid in every container -------------
def grid_md(gr):
    lines = []
    for sheet, grid in gr.items():
        lines.append(f"| {sheet} |")
        for row in grid:
            lines.append("| | " + " | ".join("" if v is None else str(v) for v in row) + " |")
    return "\n".join(lines) + "\n"


def grid_csv(gr):
    import csv
    sio = io.StringIO(newline="")
    w = csv.writer(sio, quoting=csv.QUOTE_ALL, lineterminator="\n")
    for sheet, grid in gr.items():
        w.writerow([sheet])
        for row in grid:
            w.writerow(["", *["" if v is None else str(v) for v in row]])
    return sio.getvalue()


def grid_xlsx(gr, decimals):
    from openpyxl import Workbook
    wb = Workbook()
    wb.remove(wb.active)
    for sheet, grid in gr.items():
        ws = wb.create_sheet(title=sheet)
        for row in grid:
            ws.append([(float(v) if (decimals and isinstance(v, str) and v in DECIMAL_TEXTS) else v) for v in row])
    bio = io.BytesIO()
    wb.save(bio)
    return bio.getvalue()


DECIMAL_TEXTS = ["0.00001", "0.0000001", "-0.0000000032", "0.000025", "2.5", "0.1", "123456789.125", "0.0001"]
F_MD_HEADERLESS = "F76-md-value-under-empty-header"


def _check_layout(args):
    seed, i = args
    rng = rng_for(seed, PID, "layout", i)
    from pyxform.xls2xform import convert
    from pyxform.errors import PyXFormError
    dec = rng.choice(DECIMAL_TEXTS)
    survey = [["type", "name", "label", "default"], ["decimal", "d1", "Amount", dec], ["select_one yn", "q1", "Agree?", None], ["text", "t1", "Why", None]]
    choices = [["list_name", "name", "label"], ["yn", "yes", "Yes"], ["yn", "no", "No"]]
    gr = {"survey": survey, "choices": choices}
    kinds = []
    if rng.random() < 0.4:      # an external select: its sheet is written to itemsets.csv, header row first
        survey[0].append("choice_filter")
        for r in survey[1:]:
            r.append(None)
        survey.append(["select_one_external towns", "town", "Town", None, "state=${t1}"])
        gr["external_choices"] = [["list_name", "name", "state"], ["towns", "x", "s1"], ["towns", "y", "s2"]]
        kinds.append("external")
    k = rng.random()
    expect_dup = None
    finding = False
    if k < 0.25:                # empty header cells to the right of the last header (cells under them empty too)
        for sh in rng.sample(sorted(gr), rng.randint(1, len(gr))):
            n = rng.choice([1, 2, 3, 20])
            for r in gr[sh]:
                r.extend([None] * n)
        kinds.append("trailing-empty-headers")
    elif k < 0.4:               # a run of spaces inside a header: one space, for every reader
        survey[0][2] = "label::English  (en)"
        kinds.append("header-space-run")
    elif k < 0.55:              # the same header twice: refused by every reader, with the same message
        sh = rng.choice(["survey", "choices"])
        h = gr[sh][0][rng.randrange(len(gr[sh][0]))]
        gr[sh][0].append(h)
        for r in gr[sh][1:]:
            r.append("x")
        expect_dup = h
        kinds.append("duplicate-header")
    elif k < 0.7:               # the only sheet of the workbook under another name
        gr = {rng.choice(["Sheet1", "Form", "survey 1"]): [["type", "name", "label", "default"], ["decimal", "d1", "Amount", dec], ["text", "t1", "Why", None]]}
        kinds = ["only-sheet"]
    elif k < 0.85:              # spaces around a sheet name (md trims its cells anyway)
        gr = {(rng.choice([" ", ""]) + sh + rng.choice([" ", "  "])): g for sh, g in gr.items()}
        kinds.append("sheet-name-spaces")
    elif k < 0.93:              # an empty header cell INSIDE the header row, nothing under it
        pos = rng.randint(1, len(survey[0]) - 1)
        for r in survey:
            r.insert(pos, None)
        kinds.append("interior-empty-header")
    else:                       # ... with a value under it: ignored by csv and the spreadsheets; md refuses it (finding, pinned by a test of the suite)
        pos = rng.randint(1, len(survey[0]) - 1)
        for ri, r in enumerate(survey):
            r.insert(pos, None if ri != 1 else "stray")
        kinds.append("value-under-empty-header")
        finding = True
    md, csvs = grid_md(gr), grid_csv(gr)
    xb, xb_typed = grid_xlsx(gr, False), grid_xlsx(gr, True)
    variants = [("md", lambda: convert(md, file_type=".md")), ("csv", lambda: convert(csvs, file_type=".csv")), ("xlsx", lambda: convert(xb)),
                ("xlsx/typed-decimals", lambda: convert(xb_typed)), ("md/untyped", lambda: convert(md)), ("csv/bytes", lambda: convert(csvs.encode("utf-8"), file_type=".csv"))]
    outs = {}
    for name, fn in variants:
        try:
            r = fn()
            outs[name] = ("ok", r.xform, tuple(r.warnings), r.itemsets)
        except PyXFormError as e:
            outs[name] = ("pyxerr", str(e))
        except Exception as e:   # noqa: BLE001
            return {"i": i, "form": {"grid": gr}, "variant": name, "what": f"layout {kinds}: {name} crashed with {e!r}"}
    desc = {"grid": gr, "layout": kinds}
    if expect_dup is not None:
        bad = [n for n, o in outs.items() if not (o[0] == "pyxerr" and "Duplicate column header" in o[1])]
        if bad:
            return {"i": i, "form": desc, "variant": bad[0], "what": f"the header {expect_dup!r} twice on one sheet: {bad[0]} gives {outs[bad[0]][:2]!r:.200} instead of refusing the duplicate"}
        return {"i": i, "ok": True, "typed": True, "pad": True, "key": ("layout", tuple(kinds), i), "layout": kinds}
    ref = outs["xlsx"]
    if ref[0] != "ok":
        return {"i": i, "form": desc, "variant": "xlsx", "what": f"layout {kinds}: the spreadsheet is rejected: {ref[1][:200]}"}
    if f"<d1>{dec}</d1>" not in ref[1]:
        return {"i": i, "form": desc, "variant": "xlsx", "what": f"the default {dec} of d1 is not in the instance"}
    if "external" in kinds and ref[3] != '"list_name","name","state"\r\n"towns","x","s1"\r\n"towns","y","s2"\r\n':
        return {"i": i, "form": desc, "variant": "xlsx", "what": f"itemsets {ref[3]!r} are not the external choices as written"}
    for name, o in outs.items():
        if o != ref:
            if finding and name.startswith("md") and o[0] == "pyxerr" and "missing mapping for 'None'" in o[1]:
                continue
            which = "outcome" if o[0] != ref[0] else ("xform" if o[1] != ref[1] else ("warnings" if o[2] != ref[2] else "itemsets"))
            return {"i": i, "form": desc, "variant": name, "what": f"layout {kinds}: {name} differs from xlsx in its {which}: {str(o[1:])[:300]}",
                    "observed": {"got": str(o)[:1500], "want": str(ref)[:1500]}}
    if finding and any(outs[n][0] == "pyxerr" for n in ("md", "md/untyped")):
        return {"i": i, "form": desc, "variant": "md", "finding": F_MD_HEADERLESS,
                "what": "a value under an empty header cell inside the header row: the Markdown reader refuses the workbook, csv and the spreadsheets ignore the cell"}
    return {"i": i, "ok": True, "typed": True, "pad": True, "key": ("layout", tuple(kinds), i), "layout": kinds}


def oracle(seed, tier, searching=False):
    n = 300 if tier == "quick" else 4000
    if searching:
        n *= 3
    res = pmap(_check, [(seed, i) for i in range(n)], chunksize=4)
    lay = pmap(_check_layout, [(seed, i) for i in range(n // 2)], chunksize=8)
    layouts = {}
    for r in lay:
        for k in r.get("layout", []):
            layouts[k] = layouts.get(k, 0) + 1
    res = res + lay
    fails = [r for r in res if "what" in r]
    oks = [r for r in res if r.get("ok")]
    return {
        "evaluations": len(res), "layout_stream": layouts,
        "layout_rule": "a small workbook written as a raw grid (header row included) and rendered from that one grid as md, csv and xlsx: empty header cells right of and "
                       "inside the header row, a run of spaces in a header, a repeated header (refused by all with the same message), the only sheet under another name, "
                       "spaces around sheet names, a decimal default typed as a number in the spreadsheet (0.00001, not 1e-05); XForm, warnings and itemsets equal across all",
        "distinct_nontrivial": len({r["key"] for r in oks if r["typed"] or r["pad"]}),
        "rule": "one generated workbook rendered as dict, md, csv, xlsx/xlsm (typed cells, interior empty columns <= 20, trailing empty rows/"
                "columns) and injected xlrd sheets; delivered as path, bytes, BytesIO, open file, str with/without file_type; XForm, warnings "
                "and itemsets must equal the dict input's; non-trivial = typed cells or padding present, distinct by workbook",
        "accepted": len(oks), "skipped": sum(1 for r in res if "skip" in r),
        "failures": [{"input": {"form": f["form"], "case": f["i"], "variant": f["variant"]}, "what": f["what"], "observed": f.get("observed"), "finding": f.get("finding"),
                      "reproduce": "cd /verif && /venv/bin/python harness/check.py C12 --replay <this file>"} for f in fails],
        "samples": [{"oracle_case": r["i"], "typed_cells": r["typed"], "padding": r["pad"]} for r in oks[:3]],
    }


FINDING_INPUTS = {
    F_MD_HEADERLESS: "| survey |\n| | type | | name | label |\n| | text | stray | q1 | Q |\n",
}


def replay_finding(slug):
    md = FINDING_INPUTS.get(slug)
    if not md:
        return None
    from pyxform.xls2xform import convert
    from pyxform.errors import PyXFormError
    csvs = "survey\n,type,,name,label\n,text,stray,q1,Q\n"
    try:
        ok_csv = bool(convert(csvs, file_type=".csv").xform)
    except PyXFormError:
        ok_csv = False
    try:
        convert(md, file_type=".md")
    except PyXFormError as e:
        if ok_csv and "missing mapping for 'None'" in str(e):
            return {"input": {"md": md, "csv": csvs}, "finding": slug,
                    "what": "a value under an empty header cell inside the header row: the Markdown reader refuses the workbook, the csv reader ignores the cell"}
    return None


def replay(path: Path) -> int:
    payload = json.loads(Path(path).read_text())
    print("the failing workbook and variant are in the replay file:", payload["input"].get("variant"))
    return 1
