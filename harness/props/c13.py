"""C13 — documented spellings and layout noise are interchangeable."""

from __future__ import annotations

import copy
import io
import json
import re
from pathlib import Path

from common import cstr, rng_for
from opbase import Op, pmap
import forms
from props import c04, c05

PID = "C13"
GUARD = ("ASCII letters in header names (Python lower() is Unicode-aware, the model folds ASCII only); language names and cell values are "
         "case-sensitive and never rewritten; one delimiter style per sheet; added sheets are underscore-prefixed or far from every supported name")
MODELLED = ("to_snake_case, process_header (coq/Model/Headers.v), clean_text_values for one cell (Model/CellText.v), the begin/end row stack with blank rows (Model/Rows.v), process_row/merge_dicts "
            "for a column family (Model/RowMerge.v) and the alias tables regenerated from /repo (Gen/Headers.v, Gen/Types.v). Whether the whole "
            "pipeline commutes with each spelling/layout rewrite is decided on the implementation by the metamorphic oracle")
ASSUMPTIONS = ["openpyxl round trip of the generated workbooks (cells are written and read as text)"]


class SnakeOp(Op):
    name = "B.to_snake_case"
    imports = ["PX.Model.Headers"]
    fn = "to_snake_case"
    n_quick, n_thorough = 300, 3000

    def generate(self, rng, n):
        from pyxform.parsing.sheet_headers import to_snake_case
        atoms = ["list", "name", "Name", "LIST", " ", "  ", "\t", " ", "_", "-", "::", ":", "é", "choice", "Filter", "x1", "\n", " ", "A", "z"]
        cases = []
        for _ in range(n):
            s = "".join(rng.choice(atoms) for _ in range(rng.randint(0, 6)))
            cases.append({"coq": cstr(s), "expected": to_snake_case(s), "desc": s, "class": "ws" if re.search(r"\s", s) else "plain", "nontrivial": bool(s.strip())})
        return cases


class OtherHeaderOp(Op):
    """process_header for the choices and settings sheets"""
    name = "B.process_header_other"
    imports = ["PX.Model.Headers", "PX.Gen.Headers"]
    fn = ("fun p : (bool * bool * list N) => let '(which, dc, h) := p in match (if which then process_header LIST_HEADER_ALIASES OPTION_COLUMNS dc h "
          "else process_header SETTINGS_HEADER_ALIASES SETTINGS_COLUMNS dc h) with Some ts => join [1%N] ts | None => [33%N] end")
    in_ty = "(bool * bool * list N)"
    n_quick, n_thorough = 300, 3000

    def generate(self, rng, n):
        from pyxform.parsing.sheet_headers import process_header
        from pyxform import aliases
        from pyxform.question import Option
        from pyxform.survey import Survey
        from common import cbool
        lists = ["list_name", "list name", "name", "value", "label", "caption", "label::en", "image", "media::audio::fr", "cf", "My Col", "sms_option", "geometry"]
        sets = ["form_title", "set_form_title", "title", "form_id", "id_string", "version", "Default Language", "omit_instanceID", "omit_instanceid", "prefix",
                "attribute::x", "namespaces", "public key", "style", "allow_choice_duplicates"]
        cases = []
        for _ in range(n):
            which = rng.random() < 0.5
            h = rng.choice(lists if which else sets)
            if rng.random() < 0.5:
                h = rng.choice([h.upper(), h.title(), " " + h, h + "  ", h.replace("_", " "), h.replace("::", " :: "), h.replace("::", ":")])
            dc = rng.random() < 0.5
            try:
                _, toks = process_header(header=h, use_double_colon=dc, header_aliases=aliases.list_header if which else aliases.settings_header,
                                         header_columns=set(Option.get_slot_names()) if which else set(Survey.get_slot_names()))
                exp = "\x01".join(toks)
            except IndexError:
                exp = "!"
            cases.append({"coq": f"({cbool(which)}, {cbool(dc)}, {cstr(h)})", "expected": exp, "desc": {"sheet": "choices" if which else "settings", "header": h, "dc": dc},
                          "class": "choices" if which else "settings"})
        return cases


class CellTextOp(Op):
    """clean_text_values on one cell against Model/CellText.v (with and without white-space stripping)"""
    name = "B.clean_cell"
    imports = ["PX.Model.CellText"]
    fn = "fun p => clean_cell (fst p) (snd p)"
    in_ty = "(bool * list N)"
    n_quick, n_thorough = 300, 3000

    def generate(self, rng, n):
        from pyxform.xls2json import clean_text_values
        from common import cbool
        atoms = ["a", "b c", " ", "  ", "   ", "\t", "\n", "\u00a0", "‘", "’", "“", "”", "'", '"', "x", "é", "it’s", "“q”", " \t ", "1", "."]
        cases = []
        for _ in range(n):
            v = "".join(rng.choice(atoms) for _ in range(rng.randint(1, 7)))
            if "${" in v:
                continue
            sw = rng.random() < 0.6
            out = clean_text_values(sheet_name="survey", data=[{"label": v}], strip_whitespace=sw)[0]["label"]
            cases.append({"coq": f"({cbool(sw)}, {cstr(v)})", "expected": out, "desc": {"cell": v, "strip_whitespace": sw}, "class": "strip" if sw else "keep",
                          "nontrivial": out != v})
        return cases


def ops(tier):
    return [SnakeOp(), c05.HeaderOp(), OtherHeaderOp(), c04.RowsOp(), CellTextOp()]


# ---- metamorphic oracle ------------------------------------------------------------------------------------------
SURVEY_ALIAS_GROUPS = [["relevant", "relevance"], ["calculation", "calculate"], ["label", "caption"], ["read_only", "readonly", "read only"],
                       ["constraint_message", "constraining_message", "constraint message"], ["required_message", "requiredmsg"],
                       ["repeat_count", "count"], ["image", "media::image"], ["audio", "media::audio"], ["video", "media::video"],
                       ["choice_filter", "choice filter"], ["guidance_hint", "guidance hint"]]
LIST_ALIAS_GROUPS = [["list_name", "list name"], ["label", "caption"], ["name", "value"], ["image", "media::image"]]
SETTINGS_ALIAS_GROUPS = [["form_title", "set_form_title", "title"], ["form_id", "set_form_id", "id_string"]]
TYPE_GROUPS = [["select_one_from_file", "select one from file"], ["select_multiple_from_file", "select multiple from file"],
               ["select_one", "select one", "select1"], ["select_multiple", "select all that apply"], ["integer", "int"],
               ["image", "photo"], ["begin group", "begin_group"], ["end group", "end_group"], ["begin repeat", "begin_repeat"], ["end repeat", "end_repeat"]]
YES = ["yes", "true()", "TRUE", "True", "true", "Yes", "YES"]
NO = ["no", "false()", "FALSE", "False", "false", "No", "NO"]
SMART = {"'": ["‘", "’"], '"': ["“", "”"]}


def layout_of(form):
    out = []
    for sheet, rows in form.items():
        out.append({"name": sheet, "headers": forms.headers_of(rows), "rows": [dict(r) for r in rows]})
    return out


def to_xlsx(layout) -> bytes:
    from openpyxl import Workbook
    wb = Workbook()
    wb.remove(wb.active)
    for sh in layout:
        ws = wb.create_sheet(title=sh["name"])
        ws.append(sh["headers"])
        for ri, r in enumerate(sh["rows"]):
            ws.append([None if r is None else r.get(h) for h in sh["headers"]])
            if r:
                for ci, h in enumerate(sh["headers"]):
                    if isinstance(r.get(h), str) and r[h].startswith("="):
                        ws.cell(row=ri + 2, column=ci + 1).data_type = "s"
    bio = io.BytesIO()
    wb.save(bio)
    return bio.getvalue()


def to_csv(layout) -> str:
    import csv
    sio = io.StringIO(newline="")
    w = csv.writer(sio, quoting=csv.QUOTE_ALL, lineterminator="\n")
    for sh in layout:
        w.writerow([sh["name"]])
        w.writerow(["", *sh["headers"]])
        for r in sh["rows"]:
            w.writerow(["", *[("" if r is None or r.get(h) is None else r.get(h)) for h in sh["headers"]]])
    return sio.getvalue()


def md_ok(layout) -> bool:
    for sh in layout:
        cells = [sh["name"], *sh["headers"]] + [v for r in sh["rows"] if r for v in r.values() if v is not None]
        if any(("|" in c or "\n" in c or "\r" in c or "\x0b" in c or "\x0c" in c or "\x1c" in c or "\x1d" in c or "\x1e" in c or "\x85" in c
                or "\u2028" in c or "\u2029" in c) for c in cells if isinstance(c, str)):
            return False
        if any(not isinstance(c, str) for c in cells):
            return False
    return True


def to_md(layout) -> str:
    lines = []
    for sh in layout:
        lines.append(f"| {sh['name']} |")
        lines.append("| | " + " | ".join(sh["headers"]) + " |")
        for r in sh["rows"]:
            lines.append("| | " + " | ".join(("" if r is None or r.get(h) is None else r.get(h)) for h in sh["headers"]) + " |")
    return "\n".join(lines) + "\n"


def run(layout, carrier="xlsx"):
    from pyxform.xls2xform import convert
    from pyxform.errors import PyXFormError
    try:
        if carrier == "csv":
            r = convert(to_csv(layout), file_type=".csv")
        elif carrier == "md":
            r = convert(to_md(layout), file_type=".md")
        else:
            r = convert(to_xlsx(layout), file_type=".xlsx")
        return "ok", r.xform, list(r.warnings)
    except PyXFormError as e:
        return "pyxerr", str(e), []
    except Exception as e:   # noqa: BLE001
        return "crash", repr(e), []


def split_header(h):
    """(first token, rest with its delimiter) — only the first token is a spelling, language names are data"""
    m = re.match(r"^(.*?)(\s*::?\s*.*)?$", h)
    return m.group(1), m.group(2) or ""


def rename_header(sh, old, new):
    if new in sh["headers"]:
        return False
    sh["headers"] = [new if h == old else h for h in sh["headers"]]
    for r in sh["rows"]:
        if r and old in r:
            r[new] = r.pop(old)
    return True


def sheet(layout, name):
    for sh in layout:
        if sh["name"].strip().lower() == name:
            return sh
    return None


def canonical_first(tok):
    return "_".join(tok.split()).lower()


KNOWN_COLUMNS = {
    "survey": {"type", "name", "label", "hint", "guidance_hint", "relevant", "relevance", "required", "required_message", "requiredmsg", "constraint",
               "constraint_message", "constraining_message", "calculation", "calculate", "default", "read_only", "readonly", "appearance", "parameters",
               "choice_filter", "repeat_count", "count", "trigger", "caption", "image", "audio", "video", "media", "bind", "control", "instance", "body",
               "intent", "disabled"},
    "choices": {"list_name", "name", "label", "caption", "value", "image", "audio", "video", "media"},
    "settings": {"form_title", "set_form_title", "title", "form_id", "set_form_id", "id_string", "version", "default_language", "instance_name", "public_key",
                 "submission_url", "style", "name", "namespaces", "prefix", "delimiter", "auto_send", "auto_delete", "instance_xmlns", "sms_keyword",
                 "omit_instanceid", "allow_choice_duplicates"},
}


def t_header_case(rng, layout, log):
    for sh in layout:
        if sh["name"].strip().lower() not in ("survey", "choices", "settings"):
            continue
        for h in list(sh["headers"]):
            if rng.random() < 0.35:
                first, rest = split_header(h)
                if not first.isascii() or "::" in first or ":" in first:
                    continue
                if canonical_first(first) not in KNOWN_COLUMNS[sh["name"].strip().lower()]:
                    continue          # an unknown column (e.g. an extra choices column) is data: its spelling is kept as written
                v = rng.choice([first.upper(), first.title(), f" {first}", f"{first}  ", first.replace("_", " "), first.replace("_", "  ").upper()])
                if canonical_first(v) != canonical_first(first):
                    continue
                if rename_header(sh, h, v + rest):
                    log.append(f"header {h!r} -> {v + rest!r}")


def t_alias(rng, layout, log):
    for name, groups in (("survey", SURVEY_ALIAS_GROUPS), ("choices", LIST_ALIAS_GROUPS), ("settings", SETTINGS_ALIAS_GROUPS)):
        sh = sheet(layout, name)
        if not sh:
            continue
        present_first = {canonical_first(split_header(h)[0]) for h in sh["headers"]}
        for h in list(sh["headers"]):
            first, rest = split_header(h)
            cf = canonical_first(first)
            for g in groups:
                if cf in [canonical_first(x) for x in g if "::" not in x] and rng.random() < 0.5:
                    alt = rng.choice([x for x in g if canonical_first(x) != cf] or [first])
                    if "::" in alt and (":" in rest and "::" not in rest):
                        continue                       # media::image needs the double-colon style
                    if canonical_first(alt.split("::")[-1]) in present_first - {cf}:
                        continue
                    if rename_header(sh, h, alt + rest):
                        log.append(f"alias {h!r} -> {alt + rest!r}")
                    break


def t_delim(rng, layout, log):
    for sh in layout:
        if sh["name"].strip().lower() not in ("survey", "choices"):
            continue
        hs = sh["headers"]
        if not any("::" in h for h in hs):
            continue
        if any(re.search(r"(^|[^:]):($|[^:])", h) for h in hs):
            continue          # a single colon inside some token (jr:..., bind::jr:constraintMsg): keep the style
        style = rng.choice(["::", " :: ", ":", " : ", ": "])
        if ":" in style and "::" not in style and any(h.count("::") > 0 and canonical_first(split_header(h)[0]) in ("bind", "control", "instance", "body") for h in hs):
            continue
        for h in list(hs):
            if "::" in h:
                rename_header(sh, h, re.sub(r"\s*::\s*", style, h))
        log.append(f"{sh['name']}: delimiter -> {style!r}")


def t_types(rng, layout, log):
    sh = sheet(layout, "survey")
    tcol = next((h for h in sh["headers"] if canonical_first(h) in ("type", "command")), None)
    if not tcol:
        return
    for r in sh["rows"]:
        if not r or tcol not in r or rng.random() > 0.4:
            continue
        t = " ".join(r[tcol].split())
        for g in TYPE_GROUPS:
            for member in g:
                if t == member or t.startswith(member + " "):
                    alt = rng.choice(g)
                    r[tcol] = alt + t[len(member):]
                    if alt != member:
                        log.append(f"type {t!r} -> {r[tcol]!r}")
                    break
            else:
                continue
            break


def t_truth(rng, layout, log):
    sh = sheet(layout, "survey")
    for r in sh["rows"]:
        if not r:
            continue
        for h, v in list(r.items()):
            if canonical_first(split_header(h)[0]) in ("required", "read_only", "readonly", "read only") and rng.random() < 0.6:
                if v in YES:
                    r[h] = rng.choice(YES)
                elif v in NO:
                    r[h] = rng.choice(NO)
                if r[h] != v:
                    log.append(f"truth {v!r} -> {r[h]!r}")


def t_truth_settings(rng, layout, log):
    sh = sheet(layout, "settings")
    if not sh:
        return
    for r in sh["rows"]:
        if not r:
            continue
        for h, v in list(r.items()):
            if canonical_first(h) in ("omit_instanceid", "allow_choice_duplicates", "clean_text_values") and rng.random() < 0.8:
                nv = rng.choice(YES) if v in YES else (rng.choice(NO) if v in NO else v)
                if nv != v:
                    r[h] = nv
                    log.append(f"truth {v!r} -> {nv!r} in settings.{h}")


def t_quotes(rng, layout, log):
    for name in ("survey", "choices", "settings"):
        sh = sheet(layout, name)
        if not sh:
            continue
        for r in sh["rows"]:
            if not r:
                continue
            for h, v in list(r.items()):
                if isinstance(v, str) and ("'" in v or '"' in v) and rng.random() < 0.4:
                    out = []
                    opened = {"'": False, '"': False}
                    for ch in v:
                        if ch in SMART and rng.random() < 0.7:
                            out.append(SMART[ch][1 if opened[ch] else 0])
                            opened[ch] = not opened[ch]
                        else:
                            out.append(ch)
                    r[h] = "".join(out)
                    if r[h] != v:
                        log.append(f"quotes in {name}.{h}")


def t_whitespace(rng, layout, log):
    sh = sheet(layout, "survey")
    for r in sh["rows"]:
        if not r:
            continue
        for h, v in list(r.items()):
            if isinstance(v, str) and v and rng.random() < 0.25:
                nv = v
                if rng.random() < 0.6:
                    nv = rng.choice([" ", "  ", "\t"]) + nv
                if rng.random() < 0.6:
                    nv = nv + rng.choice([" ", "   ", "\n"])
                if " " in nv.strip() and rng.random() < 0.5:
                    i = nv.strip().index(" ") + (len(nv) - len(nv.lstrip()))
                    nv = nv[:i] + rng.choice(["  ", "    ", "   "]) + nv[i + 1:]          # runs of U+0020 are collapsed; other white space inside a cell is data
                if nv != v:
                    r[h] = nv
                    log.append(f"whitespace in survey.{h}")


def t_sheet_case(rng, layout, log):
    for sh in layout:
        if sh["name"].strip().lower() in ("survey", "choices", "settings", "external_choices", "entities") and rng.random() < 0.5:
            new = rng.choice([sh["name"].upper(), sh["name"].title(), " " + sh["name"], sh["name"].title() + "  "])      # case and spaces around the name
            log.append(f"sheet {sh['name']!r} -> {new!r}")
            sh["name"] = new


def t_permute(rng, layout, log):
    for sh in layout:
        if rng.random() < 0.5:
            rng.shuffle(sh["headers"])
            log.append(f"{sh['name']}: columns permuted")
    if rng.random() < 0.5:
        rng.shuffle(layout)
        log.append("sheets permuted")


def t_blank_rows(rng, layout, log, top=False):
    """returns {sheet: old row number -> new row number}; top=True also puts blank rows directly under the header row"""
    maps = {}
    for name in ("survey", "choices"):
        sh = sheet(layout, name)
        if not sh or rng.random() < 0.4:
            continue
        new_rows, mapping, inserted = [], {}, 0
        for i, r in enumerate(sh["rows"]):
            if rng.random() < 0.2 or (top and i == 0):
                k = rng.randint(1, 3)
                new_rows += [None] * k
                inserted += k
            mapping[i + 2] = i + 2 + inserted
            new_rows.append(r)
        if inserted:
            sh["rows"] = new_rows
            maps[name] = mapping
            log.append(f"{name}: {inserted} blank rows inserted")
    return maps


def t_extra_sheets(rng, layout, log):
    if rng.random() < 0.5:
        layout.append({"name": rng.choice(["_notes", "_survey_old", "_x"]), "headers": ["type", "name", "junk"], "rows": [{"type": "text", "name": "zz", "junk": "${nope}"}]})
        log.append("underscore sheet added")
    if rng.random() < 0.5:
        layout.append({"name": rng.choice(["documentation", "translations-todo", "changelog 2024"]), "headers": ["a", "b"], "rows": [{"a": "1", "b": "<x>"}, None, {"a": "2"}]})
        log.append("unrelated sheet added")


def t_unknown_cols(rng, layout, log):
    sh = sheet(layout, "survey")
    col = rng.choice(["my_notes", "reviewer comment", "TODO", "x_internal"])
    if col in sh["headers"]:
        return
    sh["headers"].insert(rng.randint(0, len(sh["headers"])), col)
    for r in sh["rows"]:
        if r and rng.random() < 0.5:
            r[col] = rng.choice(["check this", "ok", "a < b & c", "see row 4"])
    log.append(f"unknown survey column {col!r}")


TRANSFORMS = [t_header_case, t_alias, t_delim, t_types, t_truth, t_truth_settings, t_quotes, t_whitespace, t_sheet_case, t_permute, t_extra_sheets, t_unknown_cols]


def renumber(text, maps):
    """rewrite the row numbers quoted in a message with the survey mapping (choices rows where the message says so)"""
    def sub_row(m, which="survey"):
        n = int(m.group(2))
        return m.group(1) + str(maps.get(which, {}).get(n, n)) + m.group(3)
    which = "choices" if re.search(r"choices|choice list|Choice", text) else "survey"
    text = re.sub(r"(\[row : )(\d+)(\])", lambda m: sub_row(m, which), text)
    text = re.sub(r"(\brow )(\d+)(\b)", lambda m: sub_row(m, which), text)
    text = re.sub(r"(\bRow )(\d+)(\b)", lambda m: sub_row(m, which), text)
    text = re.sub(r"(reserved_name_for_field_list_labels_)(\d+)()", lambda m: sub_row(m, "survey"), text)
    return text


def canon_warning(w):
    """(kind, subject, row): a row dict echoed in the message is reduced to the name it carries"""
    w = re.sub(r"\{[^{}]*'name': '([^']*)'[^{}]*\}", r"{name=\1}", w)
    return " ".join(sorted(t.rstrip(".") for t in re.split(r"[,;\s]+", w) if t.rstrip(".")))      # lists of subjects (languages, columns) follow column order


def _check(args):
    seed, i = args
    rng = rng_for(seed, PID, "oracle", i)
    prof = forms.Profile(adversarial=0.05, max_rows=rng.choice([4, 8, 14]), p_hint=0.4, p_media=0.15, p_logic=0.4, p_select=0.35, p_or_other=0.0,
                         p_choice_extra=0.2, p_settings=0.7)
    g = forms.FormGen(rng, prof)
    g.delim = "::"
    form = g.form()
    if rng.random() < 0.3:      # a form that draws warnings: unlabelled question / group
        for r in form["survey"]:
            if r.get("type", "").startswith(("text", "integer")) and rng.random() < 0.3:
                for k in [k for k in r if k.startswith("label")]:
                    del r[k]
    if i % 3 == 2 and form.get("choices"):      # choices that draw row-numbered messages: a choice without any label (warning), a repeated name (error)
        rc = rng_for(seed, PID, "choice-messages", i)
        ch = form["choices"]
        victim = ch[rc.randrange(len(ch))]
        if rc.random() < 0.7:
            for k in [k for k in victim if k.split("::")[0].strip().lower() in ("label", "image", "audio", "video", "media")]:
                del victim[k]
        else:
            ch.insert(ch.index(victim) + 1, dict(victim))
    if i % 3 == 1:              # columns and types that only some rows use: an intent on a group, the (deprecated) disabled column, a select from a file with its parameters
        rx = rng_for(seed, PID, "extras", i)
        grp = [r for r in form["survey"] if r.get("type", "").startswith(("begin group", "begin_group"))]
        if grp and rx.random() < 0.6:
            rx.choice(grp)["intent"] = "org.example.app(x=1)"
        qs = [r for r in form["survey"] if r.get("name") and not r.get("type", "").startswith(("begin", "end"))]
        if qs and rx.random() < 0.6:
            for r in rx.sample(qs, min(len(qs), 2)):
                r["disabled"] = rx.choice(["yes", "no"])
        if rx.random() < 0.6:
            form["survey"].append({"type": rx.choice(["select_one_from_file", "select_multiple_from_file"]) + " towns.csv", "name": "town_c13", "label": "Town",
                                   "parameters": rx.choice(["value=code, label=title", "value=id", "randomize=true, value=v, label=l"])})
    if i % 4 == 1:              # truth values on the rows that open a group or repeat, not only on questions
        forms.add_exotics(rng_for(seed, PID, "exotic", i), form, ["group_truth"], p=1.0)
    if rng.random() < 0.4:      # flag settings read through the yes/no table
        row = (form.get("settings") or [{}])[0]
        if rng.random() < 0.5 and not any(k.startswith("public_key") for k in row):
            row["omit_instanceID"] = rng.choice(["yes", "no"])
        if rng.random() < 0.5:
            row["allow_choice_duplicates"] = rng.choice(["yes", "no"])
            if row["allow_choice_duplicates"] == "yes" and form.get("choices"):
                form["choices"].append(dict(form["choices"][-1]))          # a duplicate choice name, legal only with the flag
        form["settings"] = [row]
    base = layout_of(form)
    # the workbook travels as a spreadsheet, or (two cases in five) as csv or md text: the equivalences are properties of the form, not of one reader
    carrier = {3: "csv", 4: "md"}.get(i % 5, "xlsx")
    if carrier == "md" and not md_ok(base):
        carrier = "csv"
    st0, x0, w0 = run(base, carrier)
    if st0 == "crash":
        return {"i": i, "skip": "crash on the base form: " + x0[:60]}
    lay = copy.deepcopy(base)
    log = []
    for t in rng.sample(TRANSFORMS, rng.randint(1, 5)):
        t(rng, lay, log)
    maps = t_blank_rows(rng, lay, log, top=(i % 2 == 1)) if rng.random() < 0.5 or carrier != "xlsx" else {}
    if not log:
        return {"i": i, "skip": "no transformation applied"}
    if carrier == "md" and not md_ok(lay):
        return {"i": i, "skip": "rewritten form not representable in md"}
    st1, x1, w1 = run(lay, carrier)
    desc = {"base": base, "transformed": lay, "transformations": log, "case": i, "carrier": carrier, "row_maps": maps}
    if st0 != st1:
        return {"i": i, "input": desc, "what": f"the original form gives {st0} ({x0[:150] if st0 != 'ok' else 'XForm'}) and the rewritten one {st1} ({x1[:150] if st1 != 'ok' else 'XForm'})"}
    if st0 == "pyxerr":
        # a form with several broken references is refused for the first one met, which depends on the column order: the kind of refusal is compared
        ref_kind = lambda m: re.sub(r"\$\{[^}]*\}|'[^']*'", "X", m) if "There has been a problem trying to replace" in m else None      # noqa: E731
        if renumber(x0, maps) != x1 and sorted(re.sub(r"\d+", "N", x0)) != sorted(re.sub(r"\d+", "N", x1)) and not (ref_kind(x0) and ref_kind(x0) == ref_kind(x1)):
            return {"i": i, "input": desc, "what": f"different rejection: {x0[:200]!r} vs {x1[:200]!r}"}
        return {"i": i, "ok": True, "key": ("err", x0[:40]), "n": len(log), "log": log, "carrier": carrier}
    if renumber(x0, maps) != x1:
        import xf
        ordered = not any("choices: columns permuted" in l or "Choices: columns permuted" in l or "CHOICES: columns permuted" in l for l in log)
        d = xf.first_difference(xf.semantic_canon(renumber(x0, maps), ordered), xf.semantic_canon(x1, ordered))
        if d:
            return {"i": i, "input": desc, "what": f"XForms differ semantically at {d}"}
    wa, wb = sorted(canon_warning(renumber(w, maps)) for w in w0), sorted(canon_warning(w) for w in w1)
    if wa != wb:
        return {"i": i, "input": desc, "what": f"warnings differ: {[w for w in wa if w not in wb][:3]} vs {[w for w in wb if w not in wa][:3]}"}
    return {"i": i, "ok": True, "key": hash(x0), "n": len(log), "log": log, "carrier": carrier}


def oracle(seed, tier, searching=False):
    n = 500 if tier == "quick" else 8000
    if searching:
        n *= 3
    res = pmap(_check, [(seed, i) for i in range(n)])
    fails = [r for r in res if "what" in r]
    oks = [r for r in res if r.get("ok")]
    skips, kinds = {}, {}
    for r in res:
        if "skip" in r:
            skips[r["skip"][:60]] = skips.get(r["skip"][:60], 0) + 1
        for l in r.get("log", []):
            k = l.split(" ")[0].rstrip(":")
            kinds[k] = kinds.get(k, 0) + 1
    return {
        "evaluations": len(res), "distinct_nontrivial": len({r["key"] for r in oks if r["n"] > 0}),
        "carriers": {c: sum(1 for r in res if r.get("carrier") == c) for c in ("xlsx", "csv", "md")},
        "rule": "generated workbooks (three in five as xlsx, the others as csv or md text; blank rows also directly under the header row) rewritten by 1-5 of: header case/spacing, column aliases, language-delimiter style, question-type aliases, "
                "truth values, smart quotes, extra whitespace in survey cells, sheet-name case, column/sheet permutation, extra underscore/unrelated "
                "sheets, unknown survey columns, plus blank rows in survey/choices; original and rewritten workbook must both convert or both be "
                "rejected, give the same XForm text and the same warnings once quoted row numbers (and helper names embedding them) are shifted "
                "by the number of blank rows inserted above",
        "accepted": len(oks), "skipped": skips, "transformations_applied": kinds,
        "failures": [{"input": f["input"], "what": f["what"], "reproduce": "cd /verif && /venv/bin/python harness/check.py C13 --replay <this file>"} for f in fails[:8]],
        "samples": [{"oracle_case": r["i"], "transformations": r["log"][:4]} for r in oks[:3]],
    }


def replay_finding(slug):
    return None


def replay(path: Path) -> int:
    payload = json.loads(Path(path).read_text())
    inp = payload["input"]
    carrier = inp.get("carrier", "xlsx")
    maps = {sh: {int(k): v for k, v in m.items()} for sh, m in (inp.get("row_maps") or {}).items()}
    st0, x0, w0 = run(inp["base"], carrier)
    st1, x1, w1 = run(inp["transformed"], carrier)
    import xf
    same = st0 == st1 and (st0 != "ok" or (xf.semantic_canon(re.sub(r"\d+", "N", x0), False) == xf.semantic_canon(re.sub(r"\d+", "N", x1), False) and len(w0) == len(w1)))
    if same and st0 == "ok" and "row_maps" in inp:      # the row numbers too: shifted by exactly the rows inserted above
        same = (xf.semantic_canon(renumber(x0, maps), False) == xf.semantic_canon(x1, False)
                and sorted(canon_warning(renumber(w, maps)) for w in w0) == sorted(canon_warning(w) for w in w1))
    print(inp.get("transformations"))
    if not same:
        print(f"VIOLATION property={PID} replay={path}")
        return 1
    print("original and rewritten workbook agree on this tree (row numbers aside)")
    return 0
