"""C14 — conversion is a pure function of its input."""

from __future__ import annotations

import copy
import hashlib
import json
import os
import subprocess
import sys
import tempfile
import threading
from pathlib import Path

from common import VERIF, REPO, cstr, clist, rng_for
from opbase import Op
import forms
import xf

PID = "C14"
GUARD = "cache keys compare equal only when identical (id() is unique among live objects; lru_cache keeps its keys alive)"
MODELLED = ("functools.lru_cache as explicit bounded state (coq/Model/Cache.v); sorted() over set-typed intermediates; the shared "
            "re.Scanner match cell as a two-action step. Where CPython pre-empts, GC timing and hash randomisation itself cannot be "
            "exhibited by the model: the implementation is run under PYTHONHASHSEED 0..k in fresh interpreters, in permuted batch "
            "orders, in N concurrent threads and with repeated to_xml(), and results are compared byte for byte (testing)")
ASSUMPTIONS = ["functools.lru_cache is thread-safe (CPython)", "hash randomisation affects only set/dict-of-str iteration order"]


class CacheOp(Op):
    """the lru_cache model against functools.lru_cache on interleaved traces (hits, misses, evictions)"""
    name = "K.cache_trace"
    imports = ["PX.Model.Cache"]
    fn = ("fun p => let '(mx, trace) := p in let r := run Nat.eqb (fun k : nat => (k * k + 1)%nat) mx [] trace in "
          "join [44%N] (map (fun v => dec (N.of_nat v)) (snd r)) ++ [124%N] ++ join [44%N] (map (fun e => dec (N.of_nat (fst e))) (fst r))")
    in_ty = "(nat * list nat)"
    n_quick, n_thorough = 150, 1500

    def generate(self, rng, n):
        from functools import lru_cache
        cases = []
        for i in range(n):
            mx = rng.choice([1, 2, 3, 5])
            trace = [rng.randrange(7) for _ in range(rng.randint(0, 14))]
            calls = []

            @lru_cache(maxsize=mx)
            def f(k):
                calls.append(k)
                return k * k + 1
            vals = [f(k) for k in trace]
            # contents of the cache afterwards, most recent first: replay LRU bookkeeping from hits/misses
            order = []
            for k in trace:
                if k in order:
                    order.remove(k)
                order.insert(0, k)
                del order[mx:]
            info = f.cache_info()
            assert info.currsize == len(order)
            cases.append({"coq": f"({mx}%nat, {clist([str(k) + '%nat' for k in trace], 'nat')})",
                          "expected": ",".join(map(str, vals)) + "|" + ",".join(map(str, order)),
                          "desc": {"maxsize": mx, "trace": trace, "misses": info.misses}, "class": f"maxsize={mx}", "nontrivial": len(trace) > mx})
        return cases


def ops(tier):
    return [CacheOp()]


# ---- direct oracle ---------------------------------------------------------------------------------------
def decorate(rng, form):
    """features whose handling involves process-wide state or set-typed intermediates"""
    survey = form["survey"]
    qs = [r for r in survey if r.get("name") and not r["type"].startswith(("begin", "end"))]
    if qs and rng.random() < 0.5:
        r = rng.choice(qs)
        cols = rng.sample(["relevant", "constraint", "required", "calculation", "read_only"], rng.randint(2, 4))
        for i, c in enumerate(cols):
            r[c] = f"pulldata('file{rng.randrange(5)}', 'a', 'b', 'k{i}') = 'x'"
    if qs and rng.random() < 0.7:
        r = rng.choice(qs)
        tgt = rng.choice(qs)["name"]
        if r["type"].split()[0] in ("text", "integer", "string", "int", "decimal"):
            r["default"] = "${last-saved#" + tgt + "}"
        else:
            survey.append({"type": "text", "name": "ls_q", "label": "L", "default": "${last-saved#" + tgt + "}"})
    if rng.random() < 0.3:
        form.setdefault("settings", [{}])[0]["namespaces"] = rng.choice(['esri="http://esri.com/x"', 'a="http://a.b" b="http://c.d"'])
    if rng.random() < 0.3 and qs:
        survey.insert(0, {"type": "text", "name": "st_0", "label": "s"})
        survey.append({"type": "select_one_external ext", "name": "ext_q", "label": "e", "choice_filter": "state=${st_0}"})
        form.setdefault("choices", []).append({"list_name": "ext", "name": "a", "label": "A"})
        form["external_choices"] = [{"list_name": "ext", "name": f"n{i}", "state": "s", "county": "c", "zz": "1", "aa": str(i)} for i in range(3)]
        form["__no_header"] = [{}]
    if qs and rng.random() < 0.35:
        # a select whose choice filter holds the only reference of its kind (regenerating the XML must not consume it)
        tgt = rng.choice(qs)["name"]
        survey.append({"type": rng.choice(["select_one cf9", "select_multiple cf9"]), "name": "cf_q", "label": "c",
                       "choice_filter": rng.choice(["cf = ${last-saved#%s}" % tgt, "cf = ${%s}" % tgt, "selected(${%s}, name)" % tgt])})
        form.setdefault("choices", []).extend({"list_name": "cf9", "name": n, "label": n.upper(), "cf": "x"} for n in ("a", "b"))
    if rng.random() < 0.25:
        forms.add_exotics(rng, form, ["search", "osm", "legacy_hint", "count_expr", "calc_msgs", "audit"], p=0.5)
    if rng.random() < 0.3:
        # several sheets whose names are near a supported one: the spelling hint lists them, in sheet order whatever the hash seed
        if "settings" not in form:
            for nm in rng.sample(["setting", "stetings", "setings", "Settingz", "settingss"], rng.randint(2, 4)):
                form[nm] = [{"a": "b"}]
        if "entities" not in form:
            for nm in rng.sample(["entitie", "entitys", "Entites", "entitiez"], rng.randint(2, 3)):
                form[nm] = [{"a": "b"}]
    return form


def gen_forms(seed, n):
    out = []
    for i in range(n):
        rng = rng_for(seed, PID, "form", i)
        prof = forms.Profile(adversarial=0.3, max_rows=rng.choice([4, 8, 12]), p_or_other=0.2, or_other_with_langs=True, p_hint=0.5, p_media=0.3)
        f = decorate(rng, forms.gen_form(rng, prof))
        no_header = "__no_header" in f
        f.pop("__no_header", None)
        d = forms.as_dict(f)
        if no_header:
            d.pop("external_choices_header", None)
        out.append(d)
    return out


def digest(r):
    return hashlib.sha256(json.dumps([r.xform, r.warnings, r.itemsets], ensure_ascii=False).encode()).hexdigest()


def conv_digest(d):
    from pyxform.xls2xform import convert
    from pyxform.errors import PyXFormError
    try:
        return digest(convert(copy.deepcopy(d)))
    except PyXFormError as e:
        return "pyxerr:" + hashlib.sha256(str(e).encode()).hexdigest()[:8]
    except Exception as e:
        return "crash:" + type(e).__name__


def module_tables():
    from pyxform import aliases, constants
    from pyxform.question_type_dictionary import QUESTION_TYPE_DICT
    snap = {"NSMAP": dict(constants.NSMAP), "QTD": json.dumps(QUESTION_TYPE_DICT, sort_keys=True, default=str)}
    for name in ("control", "select", "settings_header", "survey_header", "list_header", "_type_alias_map", "yes_no", "BINDING_CONVERSIONS"):
        snap[name] = json.dumps(getattr(aliases, name), sort_keys=True, default=str)
    return snap


def oracle(seed, tier, searching=False):
    nforms = 40 if tier == "quick" else 200
    nseeds = 8 if tier == "quick" else 32
    if searching:
        nforms, nseeds = nforms * 2, nseeds * 2
    fs = gen_forms(seed, nforms)
    fails = []
    tmpd = Path(tempfile.mkdtemp(prefix="pxv-c14-"))
    try:
        fj = tmpd / "forms.json"
        fj.write_text(json.dumps(fs, ensure_ascii=False))
        # (a) hash seeds, fresh interpreters
        procs = []
        for s in range(nseeds):
            env = dict(os.environ, PYTHONHASHSEED=str(s), PYTHONPATH=str(REPO))
            procs.append((s, subprocess.Popen(["/venv/bin/python", str(VERIF / "harness" / "c14_worker.py"), str(fj), str(REPO)],
                                              stdout=subprocess.PIPE, stderr=subprocess.PIPE, env=env, text=True)))
        per_seed = {}
        for s, p in procs:
            out, err = p.communicate(timeout=900)
            try:
                per_seed[s] = json.loads(out.strip().splitlines()[-1])
            except Exception:
                fails.append({"what": f"worker under PYTHONHASHSEED={s} failed: {err[-300:]}", "input": {"seed": s}})
        base = per_seed.get(0)
        for s, res in per_seed.items():
            for i, (a, b) in enumerate(zip(base or [], res)):
                if a != b:
                    fails.append({"what": f"result differs between PYTHONHASHSEED=0 and PYTHONHASHSEED={s}", "input": {"form": fs[i], "seeds": [0, s]},
                                  "reproduce": f"PYTHONHASHSEED=0 vs {s}: /venv/bin/python harness/c14_worker.py <forms.json>"})
                    break
        # (b) history: permuted batch orders in this process vs the fresh-interpreter result under this process' seed
        tmp_before = set(os.listdir(tempfile.gettempdir()))
        tables_before = module_tables()
        fwd = [conv_digest(d) for d in fs]
        rev = [conv_digest(d) for d in reversed(fs)][::-1]
        rng = rng_for(seed, PID, "order")
        idx = list(range(len(fs)))
        rng.shuffle(idx)
        shuf = {i: conv_digest(fs[i]) for i in idx}
        myseed = int(os.environ.get("PYTHONHASHSEED", "0"))
        fresh = per_seed.get(myseed if myseed in per_seed else 0) or fwd
        for i in range(len(fs)):
            got = {fwd[i], rev[i], shuf[i], fresh[i]}
            if len(got) != 1:
                fails.append({"what": "result depends on which forms were converted earlier in the process",
                              "input": {"form": fs[i], "index": i}, "observed": {"forward": fwd[i], "reverse": rev[i], "shuffled": shuf[i], "fresh": fresh[i]}})
                break
        # (c) threads
        import sys as _sys
        old = _sys.getswitchinterval()
        _sys.setswitchinterval(1e-5)
        try:
            nthreads = 8
            results = [None] * len(fs)
            rounds = (2 if tier == "quick" else 5) * (6 if searching else 1)

            def work(k):
                for i in range(k, len(fs), nthreads):
                    results[i] = conv_digest(fs[i])
            for _ in range(rounds):
                ts = [threading.Thread(target=work, args=(k,)) for k in range(nthreads)]
                [t.start() for t in ts]
                [t.join() for t in ts]
                bad = [i for i in range(len(fs)) if results[i] != fwd[i]]
                if bad:
                    fails.append({"what": f"result differs under {nthreads} concurrent threads", "input": {"form": fs[bad[0]], "index": bad[0], "threads": nthreads},
                                  "observed": {"threaded": results[bad[0]], "sequential": fwd[bad[0]]}})
                    break
        finally:
            _sys.setswitchinterval(old)
        # (c') the forced schedule on the shared expression scanner (was finding F13; repaired by a lock)
        try:
            for b_entry in ("parse_expression", "default_is_dynamic", "find_boundaries", "validate_pyxform_reference_syntax"):
                value, start, end = scanner_forced_schedule(b_entry)
                if (start, end) != (0, len(value)):
                    fails.append({"what": f"shared expression scanner: under a forced two-thread schedule (other thread inside {b_entry}) token {value!r} reports start={start} "
                                          f"end={end}, the other thread's match position (and parse_expression caches it)",
                                  "input": {"schedule": f"park A after self.match = m; run B = {b_entry}(...); resume A"}})
                    break
        except Exception as e:
            fails.append({"what": f"forced scanner schedule could not be run: {e!r}", "input": {}})
        # (d) regeneration from the same survey object
        from pyxform.xls2xform import convert
        regen = 0
        for d in fs[: (15 if tier == "quick" else 60)]:
            try:
                r = convert(copy.deepcopy(d))
            except Exception:
                continue
            regen += 1
            again = [r._survey.to_xml(validate=False, pretty_print=False) for _ in range(3)]
            if any(x != r.xform for x in again):
                fails.append({"what": "to_xml() on the same survey object gives a different document the second/third time", "input": {"form": d}})
                break
        # (e) residue
        if module_tables() != tables_before:
            fails.append({"what": "a module-level table was mutated by conversions", "input": {}})
        left = set(os.listdir(tempfile.gettempdir())) - tmp_before - {tmpd.name}
        left = {x for x in left if x.startswith("tmp")}
        if left:
            fails.append({"what": f"temporary files left behind: {sorted(left)[:3]}", "input": {}})
    finally:
        import shutil
        shutil.rmtree(tmpd, ignore_errors=True)
    ok = [x for x in (per_seed.get(0) or []) if not x.startswith(("pyxerr", "crash"))]
    return {
        "evaluations": nforms * (nseeds + 3 + 2) + regen, "distinct_nontrivial": len(set(ok)),
        "rule": f"{nforms} generated forms (pulldata in several bind columns, last-saved, namespaces, external choices without header, or_other "
                f"with translations, hints/guidance/media) converted in fresh interpreters under PYTHONHASHSEED 0..{nseeds - 1}, in forward/"
                "reverse/shuffled order in one process, in 8 concurrent threads, and regenerated 3 times from one survey object; "
                "sha256 of (xform, warnings, itemsets) compared; module tables and the temp directory compared before/after",
        "accepted": len(ok), "seeds": nseeds,
        "failures": [dict(f, reproduce=f.get("reproduce", "cd /verif && /venv/bin/python harness/check.py C14")) for f in fails[:5]],
        "samples": [{"form_index": 0, "digest": (per_seed.get(0) or ["?"])[0]}],
    }


def scanner_forced_schedule(b_entry="parse_expression"):
    """Deterministic forced schedule: park thread A inside re.Scanner.scan right after it stored its match, let
    thread B parse another expression, resume A.  Returns (value, start, end) of A's first token.  No source change
    (sys.settrace); goes through parse_expression with never-seen strings so the lru_cache cannot answer."""
    import os as _os
    from pyxform.parsing.expression import parse_expression
    nonce = _os.urandom(4).hex()
    a_parked, b_done = threading.Event(), threading.Event()
    state = {"parked": False}
    out = {}

    def tracer(frame, event, arg):
        if frame.f_code.co_name != "scan" or "re" not in _os.path.basename(_os.path.dirname(frame.f_code.co_filename)) + _os.path.basename(frame.f_code.co_filename):
            return None

        def local(fr, ev, ar):
            if ev == "line" and not state["parked"] and fr.f_locals.get("m") is not None and fr.f_locals.get("self") is not None \
                    and getattr(fr.f_locals["self"], "match", None) is fr.f_locals["m"]:
                state["parked"] = True
                a_parked.set()
                b_done.wait(1.5)
            return local
        return local

    def thread_a():
        sys.settrace(tracer)
        try:
            out["a"] = parse_expression(f"abc{nonce} + 1")[0]
        finally:
            sys.settrace(None)

    def thread_b():
        a_parked.wait(5)
        text = f"zzzzzzzzzzzzzzzzzzzzzzzz - yyyyyyyy{nonce}"
        try:
            if b_entry == "parse_expression":
                out["b"] = parse_expression(text)[0]
            elif b_entry == "default_is_dynamic":
                from pyxform.utils import default_is_dynamic
                out["b"] = default_is_dynamic(text, "date")
            elif b_entry == "find_boundaries":
                from pyxform.parsing.instance_expression import find_boundaries
                out["b"] = find_boundaries(text)
            else:
                from pyxform.validators.pyxform.pyxform_reference import validate_pyxform_reference_syntax
                out["b"] = validate_pyxform_reference_syntax(text, "survey", 2, "label")
        finally:
            b_done.set()
    ta, tb = threading.Thread(target=thread_a), threading.Thread(target=thread_b)
    ta.start(); tb.start(); ta.join(); tb.join()
    first = out["a"][0]
    return first.value, first.start, first.end


def replay_finding(slug):
    return None


def replay(path: Path) -> int:
    print(Path(path).read_text()[:3000])
    return 1
