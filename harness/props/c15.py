"""C15 — pretty_print is purely cosmetic."""

from __future__ import annotations

import json
import sys
from pathlib import Path

from common import cstr, rng_for
from opbase import Op, pmap
import domgen
import forms
import xf

PID = "C15"
GUARD = "wf_dom: element and attribute names are XML Names (every tree utils.node() builds from NCName tags)"
MODELLED = ("DetachableElement.writexml, PatchedText.writexml, escape_text_for_xml, minidom Element/Text.writexml "
            "and _write_data, Survey._to_ugly_xml/_to_pretty_xml are hand-modelled in coq/Model/Dom.v; the theorem "
            "quantifies over all DOM trees, a superset of those Survey.xml() can return")
ASSUMPTIONS = ["CPython minidom behaviour as read from the installed stdlib source",
               "the Spec parser agrees with expat on the writer's output language (op xmlparse)"]


def _serial(e):
    """expat/minidom tree -> the canonical string of coq/Model/Ser.v"""
    from xml.dom import Node
    out = []

    def go(n):
        if n.nodeType == Node.ELEMENT_NODE:
            out.append("\x01" + n.tagName + "\x02")
            for i in range(n.attributes.length):
                a = n.attributes.item(i)
                out.append(a.name + "\x03" + a.value + "\x04")
            out.append("\x05")
            buf = None
            for c in n.childNodes:
                if c.nodeType in (Node.TEXT_NODE, Node.CDATA_SECTION_NODE):
                    buf = (buf or "") + c.data
                else:
                    if buf:
                        out.append("\x07" + buf + "\x06")
                    buf = None
                    go(c)
            if buf:
                out.append("\x07" + buf + "\x06")
            out.append("\x06")
        else:
            raise ValueError("unexpected node")
    go(e)
    return "".join(out)


def _expat(doc: str) -> str:
    from defusedxml.minidom import parseString
    try:
        d = parseString(doc.encode("utf-8"))
    except Exception:
        return "REJECT"
    return _serial(d.documentElement)


class WriteOp(Op):
    name = "E.write"
    imports = ["PX.Model.Dom", "PX.Model.Ser"]
    fn = "write_both"
    in_ty = "node"
    n_quick, n_thorough = 400, 6000

    def generate(self, rng, n):
        cases = []
        for i in range(n):
            t = domgen.rand_tree(rng, max_depth=rng.choice([1, 2, 3, 4]))
            dom = domgen.to_dom(t)
            ugly = '<?xml version="1.0"?>' + dom.toxml()
            pretty = '<?xml version="1.0"?>\n' + dom.toprettyxml(indent="  ")
            cases.append({"coq": domgen.to_coq(t), "expected": ugly + "\x00" + pretty, "desc": {"tree": t},
                          "nontrivial": domgen.size(t) > 1, "class": f"size<={min(16, 1 << (domgen.size(t)).bit_length())}"})
        return cases


class NodeApiOp(Op):
    """The same writer model against trees built through the real node() API (incl. toParseString)."""
    name = "E.node_api"
    imports = ["PX.Model.Dom", "PX.Model.Ser"]
    fn = "write_both"
    in_ty = "node"
    n_quick, n_thorough = 200, 3000

    def generate(self, rng, n):
        from pyxform.utils import node
        from xml.sax.saxutils import escape
        cases = []
        for i in range(n):
            tag = rng.choice([t for t in domgen.TAGS if ":" not in t])
            attrs = dict(a for a in domgen.rand_attrs(rng) if ":" not in a[0])
            r = rng.random()
            if r < 0.5:
                # mixed content through toParseString: text pieces and <output value=…/> elements
                pieces, kids = [], []
                for _ in range(rng.randint(1, 4)):
                    if rng.random() < 0.5:
                        s = domgen.rand_text(rng).replace("\r", "")
                        if s:
                            pieces.append(escape(s))
                            if kids and kids[-1][0] == "MT":
                                kids[-1] = ("MT", kids[-1][1] + s)
                            else:
                                kids.append(("MT", s))
                    else:
                        v = " /data/" + rng.choice(["q", "a/b", "r_1"]) + " "
                        pieces.append(f'<output value="{v}"/>')
                        kids.append(("ME", "output", [("value", v)]))
                if not pieces:
                    pieces, kids = ["x"], [("MT", "x")]
                dom = node(tag, "".join(pieces), toParseString=True, **attrs)
                t = ("DE", tag, list(attrs.items()), kids)
            elif r < 0.75:
                s = domgen.rand_text(rng)
                dom = node(tag, s, **attrs)
                t = ("DE", tag, list(attrs.items()), [("PT", s)])
            else:
                sub = [domgen.rand_tree(rng, depth=1, max_depth=3) for _ in range(rng.randint(0, 3))]
                dom = node(tag, *[domgen.to_dom(x) for x in sub], **attrs)
                t = ("DE", tag, list(attrs.items()), sub)
            ugly = '<?xml version="1.0"?>' + dom.toxml()
            pretty = '<?xml version="1.0"?>\n' + dom.toprettyxml(indent="  ")
            cases.append({"coq": domgen.to_coq(t), "expected": ugly + "\x00" + pretty, "desc": {"tree": t},
                          "class": "parsed" if r < 0.5 else ("text" if r < 0.75 else "elements")})
        return cases


def _bad_for_subset(doc: str) -> bool:
    """documents outside the Spec parser's declared subset (see Spec/XmlParse.v header)"""
    body = doc[len('<?xml version="1.0"?>'):]
    return any(x in body for x in ("\r", "&#", "&apos;", "<!", "<?", "'")) or "\t" in body


class ParseOp(Op):
    """Spec/XmlParse.v + NsCheck against expat on writer output: same verdict, same tree."""
    name = "xmlparse"
    imports = ["PX.Model.Dom", "PX.Model.Ser"]
    fn = "parse_ser"
    in_ty = "list N"
    n_quick, n_thorough = 300, 5000
    mutate = False

    def generate(self, rng, n):
        import re
        cases = []
        while len(cases) < n:
            t = domgen.rand_tree(rng, max_depth=rng.choice([1, 2, 3]))
            dom = domgen.to_dom(t)
            doc = ('<?xml version="1.0"?>' + dom.toxml()) if rng.random() < 0.5 else (
                '<?xml version="1.0"?>\n' + dom.toprettyxml(indent="  "))
            cls = "writer-output"
            if self.mutate and len(doc) > 30:
                cls = "mutated"
                lo = doc.index("javarosa") + 9   # leave the namespace declarations of the root alone
                if lo >= len(doc) - 1:
                    continue
                pos = rng.randrange(lo, len(doc))
                m = rng.random()
                if m < 0.4:
                    doc = doc[:pos] + doc[pos + 1:]
                elif m < 0.7:
                    doc = doc[:pos] + rng.choice(["<", "&", '"', ">", "/", "=", "a", "&lt;", "</a>", "<a>", ":", "&amp"]) + doc[pos:]
                else:
                    pos2 = rng.randrange(lo, len(doc))
                    a, b = sorted((pos, pos2))
                    doc = doc[:a] + doc[b:]
            if _bad_for_subset(doc):
                continue
            # newline inside an attribute value is normalised by XML (declared outside the subset)
            if re.search(r'="[^"]*\n[^"]*"', doc):
                continue
            exp = _expat(doc)
            coq = cstr(doc) if not self.mutate else f"({cstr(doc)}, {cstr(exp)})"
            cases.append({"coq": coq, "expected": exp, "desc": {"document": doc},
                          "class": cls + ("/reject" if exp == "REJECT" else "/accept")})
        return cases


class ParseMutOp(ParseOp):
    """Soundness of the Spec parser on mutated writer output: whatever it accepts, expat accepts with the
    same tree (it is deliberately stricter than XML about attribute syntax the writers never emit)."""
    name = "xmlparse_mutated"
    fn = "parse_ser_sound"
    in_ty = "(list N * list N)"
    mutate = True
    n_quick, n_thorough = 300, 5000


def ops(tier):
    return [WriteOp(), NodeApiOp(), ParseOp(), ParseMutOp()]


# ---- direct oracle on the implementation --------------------------------------------------------
def _check_form(args):
    seed, i = args
    rng = rng_for(seed, PID, "oracle", i)
    prof = forms.Profile(adversarial=0.6, p_ref_in_label=0.5, max_rows=rng.choice([3, 6, 10]))
    form = forms.gen_form(rng, prof)
    if i % 3 == 0:
        # several references in one text, separated by white space only (the space between two <output/>s is content)
        rx = rng_for(seed, PID, "multi-ref", i)
        qn = [r["name"] for r in form["survey"] if r.get("name") and not r["type"].startswith(("begin", "end"))]
        if qn:
            a, b = rx.choice(qn), rx.choice(qn)
            form["survey"].append({"type": "note", "name": "mr_note9",
                                   "label": rx.choice(["${%s} ${%s}", "Full name: ${%s} ${%s}.", "${%s}  ${%s}", "${%s}\t${%s} x", "${%s}${%s}", "${%s} - ${%s}"]) % (a, b),
                                   "hint": rx.choice(["${%s} ${%s}", "see ${%s} ${%s}"]) % (b, a)})
    d = forms.as_dict(form)
    st1, r1 = xf.convert_form(d, pretty_print=False)
    st2, r2 = xf.convert_form(d, pretty_print=True)
    if st1 != "ok" or st2 != "ok":
        if st1 != st2:
            return {"i": i, "form": form, "what": f"outcome differs between modes: {st1} vs {st2}"}
        return {"i": i, "skip": st1}
    try:
        a = xf.norm_tree(xf.lparse(r1.xform))
        b = xf.norm_tree(xf.lparse(r2.xform))
    except Exception as e:
        return {"i": i, "skip": "unparseable", "err": repr(e)[:200]}   # C01's business, not C15's
    if a != b:
        return {"i": i, "form": form, "what": "pretty and compact XForm differ beyond whitespace between elements",
                "observed": {"compact": r1.xform[:3000], "pretty": r2.xform[:3000]}}
    mixed = "<output" in r1.xform
    return {"i": i, "ok": True, "mixed": mixed, "key": hash(r1.xform)}


def oracle(seed, tier, searching=False):
    n = 400 if tier == "quick" else 6000
    if searching:
        n *= 3
    res = pmap(_check_form, [(seed, i) for i in range(n)])
    fails = [r for r in res if "what" in r]
    oks = [r for r in res if r.get("ok")]
    return {
        "evaluations": len(res),
        "distinct_nontrivial": len({r["key"] for r in oks if r["mixed"]}),
        "rule": "random XLSForms converted with pretty_print False/True by the real convert(); lxml trees compared "
                "after dropping whitespace-only text inside element-only content; non-trivial = output contains mixed "
                "text/<output> content, distinct by XForm text",
        "converted_ok": len(oks), "skipped": len(res) - len(oks) - len(fails),
        "failures": [{"input": {"form": f["form"], "seed": seed, "case": f["i"]}, "what": f["what"], "observed": f.get("observed"),
                      "reproduce": f"cd /verif && VERIF_SEED={seed} /venv/bin/python harness/check.py C15"} for f in fails],
        "samples": [{"oracle_case": r["i"], "mixed_content": r["mixed"]} for r in oks[:3]],
    }


def replay_finding(slug):
    return None


def replay(path: Path) -> int:
    payload = json.loads(Path(path).read_text())
    form = payload["input"]["form"]
    d = forms.as_dict(form)
    st1, r1 = xf.convert_form(d, pretty_print=False)
    st2, r2 = xf.convert_form(d, pretty_print=True)
    if st1 == st2 == "ok" and xf.norm_tree(xf.lparse(r1.xform)) == xf.norm_tree(xf.lparse(r2.xform)):
        print("replay: property holds on this input now")
        return 0
    print(f"VIOLATION property={PID} replay={path}")
    return 1
