"""C16 — the JSON intermediate form is a faithful, reloadable representation."""

from __future__ import annotations

import copy
import json
from pathlib import Path

from common import cstr, clist, rng_for
from opbase import Op, pmap
import forms
import xf

PID = "C16"
GUARD = ("element trees the builder produces: slot names per class as regenerated from /repo, fields distinct, an option's extra columns distinct "
         "from its slots; values are strings, booleans, None, lists and dicts (numbers are rendered as strings); forms without entity "
         "declarations, OSM tags and external instances in the tree ops (the direct oracle covers them)")
MODELLED = ("SurveyElement.to_json_dict with the Question/Option/Survey/GroupedSection overrides and create_survey_element_from_dict, as element "
            "tree <-> dict functions (coq/Model/Dump.v on the repaired code; slot names and the shape of every to_json_dict are regenerated / "
            "pinned from /repo). json.dumps/json.loads are modelled separately (coq/Model/Json.v, round trip proved for every value without surrogates); the key order of a dump is not modelled; that the XML "
            "generator reads fields only through their truth value and never reads the extra_data of non-options is the `view` assumption")
ASSUMPTIONS = ["the XML generator reads an element only through view (non-empty public fields, an option's extra columns, children, choice lists)",
               "json.dumps / json.loads are modelled for str/None/bool/list/dict values (Model/Json.v, ops J.dumps and J.loads); numbers are outside the model"]


def to_jv(v):
    if v is None:
        return "JN"
    if v is True or v is False:
        return f"(JT {'true' if v else 'false'})"
    if isinstance(v, str):
        return f"(JS {cstr(v)})"
    if isinstance(v, (int, float)):
        return f"(JS {cstr(str(v))})"
    if isinstance(v, (list, tuple)):
        return "(JL " + clist([to_jv(x) for x in v], "jv") + ")"
    if isinstance(v, dict):
        return "(JD " + clist([f"({cstr(str(k))}, {to_jv(x)})" for k, x in v.items()], "(list N * jv)") + ")"
    raise TypeError(f"not a JSON value: {type(v).__name__}")


def render(v):
    if v is None:
        return "N"
    if v is True:
        return "T"
    if v is False:
        return "F"
    if isinstance(v, str):
        return '"' + v + '"'
    if isinstance(v, (int, float)):
        return '"' + str(v) + '"'
    if isinstance(v, (list, tuple)):
        return "[" + "".join(render(x) + "," for x in v) + "]"
    if isinstance(v, dict):
        items = sorted(((str(k), render(x)) for k, x in v.items()), key=lambda kv: [ord(c) for c in kv[0]])
        return "{" + "".join(f"{k}:{x}," for k, x in items) + "}"
    raise TypeError(type(v).__name__)


STRUCTURAL = ("parent", "extra_data", "children", "choices")


class Unsupported(Exception):
    pass


def extract(obj, as_list_option=False):
    """(kind, fields, extra, kids, lists) of a real survey element"""
    from pyxform.survey import Survey
    from pyxform.section import GroupedSection, RepeatingSection
    from pyxform.question import Question, Option, MultipleChoiceQuestion
    from pyxform.entities.entity_declaration import EntityDeclaration
    if isinstance(obj, Survey):
        kind = "KSurvey"
    elif isinstance(obj, RepeatingSection):
        kind = "KRepeat"
    elif isinstance(obj, GroupedSection):
        kind = "KGroup"
    elif isinstance(obj, Option):
        kind = "KOption"
    elif isinstance(obj, Question) and not isinstance(obj, EntityDeclaration) and type(obj).__name__ not in ("OsmUploadQuestion", "Tag"):
        kind = "KQuestion"
    else:
        raise Unsupported(type(obj).__name__)
    slots = [s for s in obj.get_slot_names() if s not in STRUCTURAL]
    if kind == "KQuestion":
        qtd = obj._qtd_defaults or {}
        fields = [(s, obj[s]) for s in slots if s not in qtd] + [(k, v) for k, v in (obj._qtd_kwargs or {}).items()]
    else:
        fields = [(s, obj[s]) for s in slots]
    fields = [(k, None if str(k).startswith("_") else v) for k, v in fields]          # internal slots are never dumped; their values need not be JSON
    extra = list((obj.extra_data or {}).items()) if isinstance(obj.extra_data, dict) else []
    kids, lists = [], []
    if kind in ("KSurvey", "KGroup", "KRepeat"):
        kids = [extract(c) for c in (obj.children or [])]
    if kind == "KQuestion" and isinstance(obj, MultipleChoiceQuestion) and obj.choices is not None:
        kids = [extract(o) for o in obj.choices.options]
    if kind == "KSurvey" and obj.choices:
        lists = [("KList", [("name", name)], [], [extract(o) for o in its.options], []) for name, its in obj.choices.items()]
    return (kind, fields, extra, kids, lists)


def elt_coq(t):
    kind, fields, extra, kids, lists = t
    pairs = lambda l: clist([f"({cstr(str(k))}, {to_jv(v)})" for k, v in l], "(list N * jv)")   # noqa: E731
    return f"(E {kind} {pairs(fields)} {pairs(extra)} {clist([elt_coq(k) for k in kids], 'elt')} {clist([elt_coq(k) for k in lists], 'elt')})"


KCHAR = {"KSurvey": "S", "KGroup": "G", "KRepeat": "R", "KQuestion": "Q", "KOption": "O", "KList": "L"}


def keep(kv):
    return bool(kv[1]) and not str(kv[0]).startswith("_")


def render_view(t):
    kind, fields, extra, kids, lists = t
    f = fields if kind == "KList" else [kv for kv in fields if keep(kv)]
    x = [kv for kv in extra if kv[1]] if kind == "KOption" else []
    return (KCHAR[kind] + render(dict(f)) + render(dict(x)) + "<" + "".join(render_view(c) + ";" for c in kids) + ">"
            + "<" + "".join(render_view(c) + ";" for c in lists) + ">")


def gen_survey(rng):
    prof = forms.Profile(adversarial=0.1, max_rows=rng.choice([3, 6, 10]), p_hint=0.4, p_media=0.2, p_logic=0.5, p_select=0.4, p_choice_extra=0.5,
                         p_settings=0.7, p_or_other=0.1, p_group=0.25, p_repeat=0.15, p_trigger=0.5)
    g = forms.FormGen(rng, prof)
    form = g.form()
    if rng.random() < 0.4:
        for r in form["survey"]:
            if r.get("type", "").startswith("begin") and rng.random() < 0.7:
                r["relevant"] = rng.choice(["${q0} = 'x'", "true()", "1 = 1"]) if any(q.get("name") == "q0" for q in form["survey"]) else "true()"
                if rng.random() < 0.3:
                    r["read_only"] = "yes"
    return form


def build(form, **kw):
    from pyxform.xls2json import workbook_to_json
    from pyxform.xls2json_backends import get_xlsform
    wb = get_xlsform(copy.deepcopy(forms.as_dict(form)))
    return workbook_to_json(workbook_dict=wb, form_name="data", warnings=[], **kw)


class DumpOp(Op):
    """to_json_dict of real surveys against the model's dump (keys compared as sets, values exactly)"""
    name = "D.to_json_dict"
    imports = ["PX.Model.Dump", "PX.Model.DumpSlots"]
    fn = "fun e => (if wf real_slots e then [87;49]%N else [87;48]%N) ++ render (JD (dump e))"
    in_ty = "elt"
    n_quick, n_thorough = 80, 800

    def generate(self, rng, n):
        from pyxform.builder import create_survey_element_from_dict
        from pyxform.errors import PyXFormError
        cases = []
        tries = 0
        while len(cases) < n and tries < 4 * n:
            tries += 1
            form = gen_survey(rng)
            try:
                js = build(form)
                s = create_survey_element_from_dict(copy.deepcopy(js))
                t = extract(s)
                d = s.to_json_dict()
            except (PyXFormError, Unsupported):
                continue
            cases.append({"coq": elt_coq(t), "expected": "W1" + render(d), "desc": {"form": form}, "class": f"rows={min(len(form['survey']), 12) // 4 * 4}",
                          "nontrivial": len(form["survey"]) > 2})
        return cases


class ReloadOp(Op):
    """the tree rebuilt by create_survey_element_from_dict(to_json_dict()) against the model's load of its dump, through view"""
    name = "D.reload"
    imports = ["PX.Model.Dump", "PX.Model.DumpSlots"]
    fn = "fun e => render_elt (view (load real_slots (depth e) false (dump e)))"
    in_ty = "elt"
    n_quick, n_thorough = 80, 800

    def generate(self, rng, n):
        from pyxform.builder import create_survey_element_from_dict, create_survey_element_from_json
        from pyxform.errors import PyXFormError
        cases = []
        tries = 0
        while len(cases) < n and tries < 4 * n:
            tries += 1
            form = gen_survey(rng)
            try:
                js = build(form)
                s = create_survey_element_from_dict(copy.deepcopy(js))
                t = extract(s)
                s2 = create_survey_element_from_json(json.dumps(s.to_json_dict()))
                t2 = extract(s2)
            except (PyXFormError, Unsupported):
                continue
            cases.append({"coq": elt_coq(t), "expected": render_view(t2), "desc": {"form": form}, "class": f"rows={min(len(form['survey']), 12) // 4 * 4}",
                          "nontrivial": len(form["survey"]) > 2})
        return cases


def gen_json_value(rng, depth=0):
    strs = ["", "a", "label", "é", "日本", "😀", "a\"b", "back\\slash", "line\nbreak", "tab\t", "\x01", "\x7f", "\u2028", "${q} > 1", "<b>&amp;</b>", "'", "/", "\r", "\x08\x0c", "\U0010ffff"]
    r = rng.random()
    if depth > 3 or r < 0.45:
        return rng.choice(strs) if rng.random() < 0.8 else rng.choice([None, True, False])
    if r < 0.7:
        return [gen_json_value(rng, depth + 1) for _ in range(rng.randint(0, 3))]
    return {rng.choice(strs) + str(i): gen_json_value(rng, depth + 1) for i in range(rng.randint(0, 3))}


def has_number(v):
    if isinstance(v, bool) or v is None or isinstance(v, str):
        return False
    if isinstance(v, (int, float)):
        return True
    if isinstance(v, list):
        return any(has_number(x) for x in v)
    return any(has_number(x) for x in v.values())


class JsonDumpsOp(Op):
    """json.dumps against the model's dumps, on synthetic values and on the JSON forms of real workbooks"""
    name = "J.dumps"
    imports = ["PX.Model.Dump", "PX.Model.Json"]
    fn = "dumps"
    in_ty = "jv"
    n_quick, n_thorough = 200, 2000

    def generate(self, rng, n):
        from pyxform.errors import PyXFormError
        cases = []
        for i in range(n):
            if i % 4 == 0:
                try:
                    v = build(gen_survey(rng))
                except PyXFormError:
                    continue
                if has_number(v):
                    continue
                cls = "form"
            else:
                v = gen_json_value(rng)
                cls = "synthetic"
            cases.append({"coq": to_jv(v), "expected": json.dumps(v), "desc": v if cls == "synthetic" else "JSON form of a generated workbook", "class": cls,
                          "nontrivial": isinstance(v, (list, dict)) and len(v) > 0})
        return cases


class JsonLoadsOp(Op):
    """json.loads against the model's loads, on dumps output with optional extra white space, and on damaged text"""
    name = "J.loads"
    imports = ["PX.Model.Dump", "PX.Model.Json"]
    fn = "fun s => match loads s with Some v => 79%N :: render v | None => [69%N] end"
    n_quick, n_thorough = 200, 2000

    def generate(self, rng, n):
        cases = []
        for _ in range(n):
            v = gen_json_value(rng)
            mode = rng.choice(["plain", "plain", "indent", "noascii", "damaged"])
            if mode == "plain":
                t = json.dumps(v)
            elif mode == "indent":
                t = json.dumps(v, indent=rng.choice([1, 2]))
            elif mode == "noascii":
                t = json.dumps(v, ensure_ascii=False)
            else:
                t = json.dumps(v)
                if t:
                    k = rng.randrange(len(t))
                    t = t[:k] + rng.choice(["", ",", "]", "\\", '"', "x"]) + t[k + 1:]
            try:
                back = json.loads(t)
                exp = "E" if has_number(back) else "O" + render(back)
            except (json.JSONDecodeError, RecursionError):
                exp = "E"
            if mode == "damaged" and exp != "E" and not isinstance(back, (str, list, dict, bool, type(None))):
                continue
            cases.append({"coq": cstr(t), "expected": exp, "desc": t, "class": mode, "nontrivial": exp != "E"})
        return cases


def ops(tier):
    return [DumpOp(), ReloadOp(), JsonDumpsOp(), JsonLoadsOp()]


# ---- direct oracle ---------------------------------------------------------------------------------------------
def _check(args):
    from pyxform.builder import create_survey_element_from_dict, create_survey_element_from_json
    from pyxform.errors import PyXFormError
    from pyxform.xls2xform import convert
    seed, i = args
    rng = rng_for(seed, PID, "oracle", i)
    form = gen_survey(rng)
    if rng.random() < 0.4:
        forms.add_custom_columns(rng, form)
    if i % 3 == 0:
        # rarely used but accepted features (a separate stream: the base forms of the other cases stay as they were)
        forms.add_exotics(rng_for(seed, PID, "exotic", i), form, ["osm", "search", "legacy_hint", "choice_parent", "empty_group", "calc_msgs", "audit"], p=0.4)
    if i % 5 == 1:
        # a language (or custom attribute) that bears the name of an internal field of the element dump: parent, bind, control, children, type
        rl = rng_for(seed, PID, "lang-name", i)
        langs_, delim_ = forms.form_langs(form)
        if langs_:
            old_l, new_l = rl.choice(langs_), rl.choice(["parent", "bind", "control", "children", "type", "name", "label", "media"])
            if new_l not in langs_:
                for rows_ in form.values():
                    for row_ in rows_:
                        for k_ in [k_ for k_ in row_ if k_.endswith(delim_ + old_l)]:
                            row_[k_[: -len(old_l)] + new_l] = row_.pop(k_)
                srow_ = (form.get("settings") or [{}])[0]
                if srow_.get("default_language") == old_l:
                    srow_["default_language"] = new_l
        for row_ in form["survey"]:
            if row_.get("name") and not row_.get("type", "").startswith(("begin", "end")) and rl.random() < 0.3:
                row_[rl.choice(["instance::control", "instance::bind", "instance::parent", "bind::parent"])] = "v"
    if i % 13 == 6 and any(r_.get("type", "").startswith(("select_multiple ", "select all that apply ")) for r_ in form["survey"]):
        form.setdefault("settings", [{}])[0]["add_none_option"] = "yes"      # an undocumented legacy setting: known finding F62
    desc = {"form": form, "case": i}
    try:
        direct = convert(copy.deepcopy(forms.as_dict(form)), form_name="data")
    except PyXFormError as e:
        return {"i": i, "skip": "rejected: " + str(e)[:50]}
    except Exception as e:   # noqa: BLE001
        return {"i": i, "skip": "crash (C17): " + repr(e)[:50]}
    x0 = direct.xform
    probs = []
    try:
        js = build(form)
        text = json.dumps(js)
        x1 = create_survey_element_from_json(text).to_xml(validate=False, pretty_print=False)
        if x1 != x0:
            probs.append("workbook -> JSON dict -> JSON text -> survey gives a different XForm: " + str(xf.first_difference(xf.semantic_canon(x0), xf.semantic_canon(x1))))
        s = create_survey_element_from_dict(json.loads(text))
        d1 = s.to_json_dict()
        t1 = json.dumps(d1, ensure_ascii=rng.random() < 0.5)
        s2 = create_survey_element_from_json(t1)
        d2 = s2.to_json_dict()
        if d2 != d1:
            probs.append("the survey's JSON dump is not stable under dump, load, dump: " + diff_dicts(d1, d2))
        x2 = s2.to_xml(validate=False, pretty_print=False)
        if x2 != x0:
            probs.append("survey -> to_json_dict -> JSON text -> survey gives a different XForm: " + str(xf.first_difference(xf.semantic_canon(x0), xf.semantic_canon(x2)) or "order of attributes/declarations"))
        d3 = create_survey_element_from_json(json.dumps(d2)).to_json_dict()
        if d3 != d2:
            probs.append("second reload changes the dump: " + diff_dicts(d2, d3))
        # (C) the survey that produced the XForm (its dump is taken AFTER XML generation)
        s3 = create_survey_element_from_json(json.dumps(direct._survey.to_json_dict()))
        x3 = s3.to_xml(validate=False, pretty_print=False)
        if x3 != x0:
            probs.append("dump taken after to_xml() -> survey gives a different XForm: " + str(xf.first_difference(xf.semantic_canon(x0), xf.semantic_canon(x3)) or "order of attributes/declarations"))
    except Exception as e:   # noqa: BLE001
        probs.append(f"round trip raised {e!r}")
    if probs:
        return {"i": i, "input": desc, "what": "; ".join(probs)[:900], "finding": classify(form)}
    return {"i": i, "ok": True, "key": hash(x0), "n": len(form["survey"])}


def classify(form):
    """the one listed finding of this property, recognised by the setting that causes it"""
    srow = (form.get("settings") or [{}])[0]
    if str(srow.get("add_none_option", "")).strip().lower() in ("yes", "true", "true()", "1") and any(
            r.get("type", "").startswith(("select_multiple ", "select all that apply ")) for r in form.get("survey", [])):
        return "F62-add-none-option"
    return None


FINDING_INPUTS = {"F62-add-none-option": {"survey": [{"type": "select_multiple c", "name": "q1", "label": "Q1"}, {"type": "select_multiple c", "name": "q2", "label": "Q2"}],
                                          "choices": [{"list_name": "c", "name": "a", "label": "A"}, {"list_name": "c", "name": "b", "label": "B"}],
                                          "settings": [{"add_none_option": "yes"}]}}


def diff_dicts(a, b, path=""):
    if type(a) is not type(b):
        return f"{path}: {type(a).__name__} vs {type(b).__name__}"
    if isinstance(a, dict):
        for k in a:
            if k not in b:
                return f"{path}/{k}: dropped ({str(a[k])[:60]})"
        for k in b:
            if k not in a:
                return f"{path}/{k}: appeared ({str(b[k])[:60]})"
        for k in a:
            r = diff_dicts(a[k], b[k], f"{path}/{k}")
            if r:
                return r
    elif isinstance(a, list):
        if len(a) != len(b):
            return f"{path}: {len(a)} vs {len(b)} items"
        for j, (x, y) in enumerate(zip(a, b)):
            r = diff_dicts(x, y, f"{path}[{j}]")
            if r:
                return r
    elif a != b:
        return f"{path}: {a!r} vs {b!r}"
    return ""


def oracle(seed, tier, searching=False):
    n = 500 if tier == "quick" else 8000
    if searching:
        n *= 3
    res = pmap(_check, [(seed, i) for i in range(n)])
    fails = [r for r in res if "what" in r]
    oks = [r for r in res if r.get("ok")]
    skips = {}
    for r in res:
        if "skip" in r:
            skips[r["skip"][:40]] = skips.get(r["skip"][:40], 0) + 1
    return {
        "evaluations": len(res), "distinct_nontrivial": len({r["key"] for r in oks if r["n"] > 2}),
        "rule": "generated workbooks with group logic (relevant/read_only on groups and repeats), extra choice columns, parameters, translations, media, "
                "settings, custom bind/instance/body columns, namespaces and attribute:: settings: (A) workbook -> JSON dict -> JSON text -> survey -> "
                "XForm equals convert()'s XForm byte for byte; (B) survey -> to_json_dict -> JSON text (ASCII-escaped or not) -> survey: same XForm, "
                "same dump, and a second reload leaves the dump unchanged; (C) the dump of the survey that already generated its XForm reloads to the same XForm; "
                "every third case adds rarely used features (osm tags, search() selects, legacy types with a type-table hint, a choices column called parent, empty groups, calculate messages, audit)",
        "accepted": len(oks), "skipped": skips,
        "failures": [{"input": f["input"], "what": f["what"], "finding": f.get("finding"), "reproduce": "cd /verif && /venv/bin/python harness/check.py C16 --replay <this file>"}
                     for f in sorted(fails, key=lambda f_: f_.get("finding") is not None)[:8]],
        "samples": [{"oracle_case": r["i"], "rows": r["n"]} for r in oks[:3]],
    }


def replay_finding(slug):
    """the committed input of the listed finding, run through the same round trips as a generated case"""
    form = FINDING_INPUTS.get(slug)
    if not form:
        return None
    from pyxform.builder import create_survey_element_from_json
    from pyxform.xls2xform import convert
    direct = convert(copy.deepcopy(forms.as_dict(form)), form_name="data")
    js = json.dumps(direct._pyxform)
    x1 = create_survey_element_from_json(js).to_xml(validate=False, pretty_print=False)
    d1 = create_survey_element_from_json(js).to_json_dict()
    d2 = create_survey_element_from_json(json.dumps(d1)).to_json_dict()
    if x1 != direct.xform or d1 != d2:
        return {"input": form, "what": "reload of the JSON form gives a different XForm" if x1 != direct.xform else "the dump is not stable under dump, load, dump"}
    return None


def replay(path: Path) -> int:
    payload = json.loads(Path(path).read_text())
    case_no = payload["input"].get("case")
    seed = payload.get("seed", 20260930)
    for sd in (seed, seed + 1, seed + 2):
        res = _check((sd, case_no))
        if (res.get("input") or {}).get("form") == payload["input"].get("form") or sd == seed:
            if "what" in res:
                print(res["what"])
                print(f"VIOLATION property={PID} replay={path}")
                return 1
    print("no violation on this tree for the replayed case")
    return 0
