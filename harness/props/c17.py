"""C17 — broken forms are rejected with a located diagnosis; nothing ever crashes."""

from __future__ import annotations

import copy
import json
import re
import traceback
from pathlib import Path

from common import cstr, clist, cbool, rng_for
from opbase import Op, pmap
import forms
from props import c04, c05

PID = "C17"
GUARD = ("cells are non-empty strings (sheet readers drop empty cells); the breaking mutations are applied to forms the converter accepts; "
         "located = the message cites the spreadsheet row for the error kinds whose message format carries a row (DESIGN.md Appendix D)")
MODELLED = ("the begin/end row stack (Model/Rows.v), tree validation (Model/Tree.v), the instance registry (Model/Choices.v), "
            "parameters_generic.parse/validate and the token state machine of validate_pyxform_reference_syntax (Model/Params.v), "
            "process_header with its one failing partial operation (Model/Headers.v). Every other check of the catalogue and the absence of "
            "internal exceptions are decided on the implementation by the mutation and vocabulary-fuzz oracle")
ASSUMPTIONS = ["re.Scanner tokens are the input of the reference-syntax model"]


class ParamsOp(Op):
    name = "V.parameters"
    imports = ["PX.Model.Bind", "PX.Model.Params"]
    fn = ("fun raw => match Params.parse raw with PCrash => [67%N] | PRejected => [82%N] "
          "| POk d => 79%N :: join [1%N] (map (fun kv => fst kv ++ [61%N] ++ snd kv) d) end")
    n_quick, n_thorough = 400, 4000

    def generate(self, rng, n):
        from pyxform.validators.pyxform import parameters_generic
        from pyxform.errors import PyXFormError
        atoms = ["randomize", "seed", "=", "true", ";", ",", " ", "  ", "value", "label", "Name", "a", "1", "==", "max-pixels", "\t", "X=Y", "k=v", "start=1", "=x", "y="]
        cases = []
        for _ in range(n):
            raw = "".join(rng.choice(atoms) for _ in range(rng.randint(1, 7)))
            try:
                d = parameters_generic.parse(raw)
                exp = "O" + "\x01".join(f"{k}={v}" for k, v in d.items())
            except PyXFormError:
                exp = "R"
            except Exception:   # noqa: BLE001
                exp = "C"
            cases.append({"coq": cstr(raw), "expected": exp, "desc": raw, "class": exp[0], "nontrivial": exp[0] == "O"})
        return cases


class RefSyntaxOp(Op):
    """validate_pyxform_reference_syntax against the token state machine (real tokens are the model's input)"""
    name = "V.reference_syntax"
    imports = ["PX.Model.Params"]
    fn = "fun ts => if ref_check false ts then [79%N] else [82%N]"
    in_ty = "list tname"
    n_quick, n_thorough = 400, 4000

    def generate(self, rng, n):
        from pyxform.validators.pyxform.pyxform_reference import validate_pyxform_reference_syntax
        from pyxform.parsing.expression import parse_expression
        from pyxform.errors import PyXFormError
        atoms = ["${", "}", "q", "q1", " ", "${q}", "${last-saved#q}", "-", ".", "a b", "${q", "$", "{", "+", "'x'", "${ q }", "${q}}", "${${q}}", "é", "q-1", ":"]
        names = {"PYXFORM_REF_START": "TStart", "PYXFORM_REF_END": "TEnd", "NAME": "TName", "PYXFORM_REF": "TRef"}
        cases = []
        for _ in range(n):
            v = "".join(rng.choice(atoms) for _ in range(rng.randint(1, 6)))
            if len(v) <= 2 or "${" not in v:
                continue
            try:
                validate_pyxform_reference_syntax(v, "survey", 2, "label")
                exp = "O"
            except PyXFormError:
                exp = "R"
            toks, _ = parse_expression(v)
            cases.append({"coq": clist([names.get(t.name, "TOther") for t in toks], "tname"), "expected": exp, "desc": v, "class": exp, "nontrivial": True})
        return cases


class RefSyntaxTextOp(Op):
    """validate_pyxform_reference_syntax on the raw cell text, through the modelled scanner (no oracle)"""
    name = "V.reference_syntax_text"
    imports = ["PX.Model.RefText"]
    fn = "fun s => if ref_syntax_ok s then [79%N] else [82%N]"
    in_ty = "list N"
    n_quick, n_thorough = 600, 6000

    def generate(self, rng, n):
        from pyxform.validators.pyxform.pyxform_reference import validate_pyxform_reference_syntax
        from pyxform.errors import PyXFormError
        atoms = ["${", "}", "q", "q1", " ", "${q}", "${last-saved#q}", "-", ".", "a b", "${q", "$", "{", "+", "'x'", "${ q }", "${q}}", "${${q}}", "é", "q-1", ":", "${a:b}", "${a:}",
                 "${last-saved#}", "${last-saved}", "'${q}'", "\"${\"", "\n", "\u00a0", "${q.1}", "${1q}", "${-q}", "${_}", "#", "(", ")", "[", "]", ",", "${q}${r}", "1", "2020-01-02"]
        cases = []
        for _ in range(n):
            v = "".join(rng.choice(atoms) for _ in range(rng.randint(0, 6)))
            if len(cases) < 6:
                v = ["${", "$", "{", "${}", "$ {", ""][len(cases)]      # the shortest cells, the bare opening of a reference among them
            try:
                validate_pyxform_reference_syntax(v, "survey", 2, "label")
                exp = "O"
            except PyXFormError:
                exp = "R"
            cases.append({"coq": cstr(v), "expected": exp, "desc": v, "class": exp + ("/ref" if "${" in v else "/plain"), "nontrivial": "${" in v})
        return cases


def ops(tier):
    return [ParamsOp(), RefSyntaxOp(), RefSyntaxTextOp(), c04.RowsOp(), c05.HeaderOp()]


# ---- known findings: narrow predicates over (exception type, innermost pyxform frame) -----------------------------------------
FINDINGS = {
    "F4c-external-select-unfiltered": ("KeyError", "add_choices_info_to_question"),
}
FINDING_INPUTS = {
    "F4c-external-select-unfiltered": {"survey": [{"type": "select_one_external cities", "name": "c", "label": "C"}],
                                       "choices": [{"list_name": "l", "name": "a", "label": "A"}],
                                       "external_choices": [{"list_name": "cities", "name": "a", "label": "A"}]},
}


def outcome(form_dict, **kw):
    """('ok', result) | ('pyxerr', message) | ('crash', (type name, innermost pyxform function, text))"""
    from pyxform.xls2xform import convert
    from pyxform.errors import PyXFormError
    try:
        return "ok", convert(copy.deepcopy(form_dict), **kw)
    except PyXFormError as e:
        return "pyxerr", str(e)
    except Exception as e:   # noqa: BLE001
        frames = [f for f in traceback.extract_tb(e.__traceback__) if "/pyxform/" in f.filename]
        fn = frames[-1].name if frames else "?"
        return "crash", (type(e).__name__, fn, str(e)[:120])


def classify(crash, form=None):
    for slug, (tname, fn) in FINDINGS.items():
        if crash[0] == tname and crash[1] == fn:
            return slug
    return None


# ---- the catalogue of breaking mutations -----------------------------------------------------------------------------------------
def rows_of(form):
    return form["survey"]


def question_rows(form):
    return [i for i, r in enumerate(rows_of(form)) if r.get("name") and not re.match(r"^(begin|end)[ _]", r.get("type", ""))]


def M_unmatched_end(rng, form):
    i = rng.randint(0, len(rows_of(form)))
    depth = 0
    for r in rows_of(form)[:i]:
        t = r.get("type", "")
        depth += 1 if re.match(r"^begin[ _]", t) else (-1 if re.match(r"^end[ _]", t) else 0)
    if depth != 0:
        return None
    rows_of(form).insert(i, {"type": rng.choice(["end group", "end repeat", "end_group"])})
    return {"kind": r"Unmatched end statement", "row": i + 2}


def M_mismatched_end(rng, form):
    ends = [i for i, r in enumerate(rows_of(form)) if re.match(r"^end[ _]", r.get("type", ""))]
    if not ends:
        return None
    i = rng.choice(ends)
    t = rows_of(form)[i]["type"]
    rows_of(form)[i]["type"] = "end repeat" if "group" in t else "end group"
    return {"kind": r"Unmatched end statement", "row": i + 2}


def M_unclosed_begin(rng, form):
    ends = [i for i, r in enumerate(rows_of(form)) if re.match(r"^end[ _]", r.get("type", ""))]
    if not ends:
        return None
    del rows_of(form)[rng.choice(ends)]
    return {"kind": r"Unmatched begin statement|Unmatched end statement", "row": None}      # an inner end removed: the outer end no longer matches


def M_duplicate_sibling(rng, form):
    qs = question_rows(form)
    if not qs:
        return None
    i = rng.choice(qs)
    dup = copy.deepcopy(rows_of(form)[i])
    if rng.random() < 0.3:
        dup["name"] = dup["name"].upper() if dup["name"].upper() != dup["name"] else dup["name"].lower()
    rows_of(form).insert(i + 1, dup)
    return {"kind": r"There are more than one survey elements named|names must be unique", "row": None, "subject": rows_of(form)[i]["name"].lower()}


def M_invalid_name(rng, form):
    qs = question_rows(form)
    if not qs:
        return None
    i = rng.choice(qs)
    bad = rng.choice(["1abc", "a b", "a$", "-x", "a/b"])
    old = rows_of(form)[i]["name"]
    for r in rows_of(form):
        for k, v in list(r.items()):
            if isinstance(v, str) and "${" + old + "}" in v:
                r[k] = v.replace("${" + old + "}", "1")
    rows_of(form)[i]["name"] = bad
    return {"kind": r"Invalid question name|is an invalid name|invalid", "row": i + 2}


def M_unknown_reference(rng, form):
    qs = question_rows(form)
    if not qs:
        return None
    i = rng.choice(qs)
    plain = rows_of(form)[i].get("label") and not any(k.startswith("label:") for k in rows_of(form)[i])
    col = rng.choice(["relevant", "constraint", "label"]) if plain else "relevant"      # an unsuffixed label beside its translations may be shadowed (C08)
    rows_of(form)[i][col] = rng.choice(["${no_such_question} = 1", "a ${no_such_question} b"]) if col != "label" else "L ${no_such_question}"
    return {"kind": r"There has been a problem trying to replace \$\{no_such_question\}", "row": None, "subject": "no_such_question"}


def M_malformed_reference(rng, form):
    qs = question_rows(form)
    if not qs:
        return None
    i = rng.choice(qs)
    col = rng.choice(["relevant", "constraint", "hint"])
    rows_of(form)[i][col] = rng.choice(["${q", "${a b}", "${a} ${", "${${a}}", "${a$}", "${", "x ${"])
    if rng.random() < 0.3:
        # the syntax of references is checked whether or not the cells are cleaned
        form.setdefault("settings", [{}])[0]["clean_text_values"] = rng.choice(["no", "false"])
    return {"kind": r"On the 'survey' sheet, the '" + col + r"' value is invalid. Reference expressions must", "row": i + 2}


def M_unknown_type(rng, form):
    qs = question_rows(form)
    if not qs:
        return None
    i = rng.choice(qs)
    rows_of(form)[i]["type"] = rng.choice(["txt", "selectone l", "integer2", "geo point"])
    return {"kind": r"Unknown question type", "row": None, "subject": rows_of(form)[i]["type"]}


def M_missing_list(rng, form):
    i = rng.randint(0, len(rows_of(form)))
    depth_ok = True
    rows_of(form).insert(i, {"type": rng.choice(["select_one nolist_x", "select_multiple nolist_x"]), "name": "sel_x", "label": "S"})
    if not form.get("choices"):
        return {"kind": r"There should be a choices sheet", "row": None}
    return {"kind": r"List name not in choices sheet: nolist_x", "row": i + 2} if depth_ok else None


def M_calculate_without_calculation(rng, form):
    i = rng.randint(0, len(rows_of(form)))
    rows_of(form).insert(i, {"type": "calculate", "name": "calc_x"})
    return {"kind": r"Missing calculation", "row": i + 2}


def M_bad_parameters(rng, form):
    qs = question_rows(form)
    if not qs:
        return None
    i = rng.choice(qs)
    rows_of(form)[i]["parameters"] = rng.choice(["rows", "x y", "a;b"])
    return {"kind": r"Expecting parameters to be in the form of", "row": None}


def M_bad_parameter_value(rng, form):
    """a parameter whose value is not what its user accepts: a second '=' in it, a range bound that is not a finite number"""
    kind = rng.choice(["eq", "eq", "range", "range"])
    if kind == "eq":
        t, prm, msg = rng.choice([("image", "max-pixels=6=40", r"Parameter max-pixels must have an integer value"), ("text", "rows=3=4", r"Parameter rows must have an integer value"),
                                  ("range", "start=1=2 end=5", r"Range parameters 'start', 'end' or 'step' must all be numbers")])
    else:
        t, prm, msg = "range", rng.choice(["start=nan end=5", "start=1 end=inf", "step=-inf", "start=1 end=5 step=nan", "end=infinity"]), r"Range parameters 'start', 'end' or 'step' must all be numbers"
    rows_of(form).append({"type": t, "name": "bad_param_q", "label": "Q", "parameters": prm})
    return {"kind": msg, "row": None}


def M_hidden_trigger(rng, form):
    """a calculation or a background-geopoint triggered by a question that has no control to hold the action"""
    rows_of(form).append({"type": "calculate", "name": "hidden_trg", "calculation": "1 + 1"})
    if rng.random() < 0.5:
        rows_of(form).append({"type": "background-geopoint", "name": "bg_after_hidden", "trigger": "${hidden_trg}"})
    else:
        rows_of(form).append({"type": "calculate", "name": "calc_after_hidden", "calculation": "2", "trigger": "${hidden_trg}"})
    return {"kind": r"is not user-visible so it can't be used as a calculation trigger", "row": None}


def M_unknown_parameter(rng, form):
    i = rng.randint(0, len(rows_of(form)))
    rows_of(form).insert(i, {"type": "text", "name": "par_x", "label": "P", "parameters": "colour=red"})
    return {"kind": r"Accepted parameters are .*invalid parameter\(s\): 'colour'", "row": None}


def M_instance_clash(rng, form):
    if not form.get("choices"):
        return None
    lst = form["choices"][0]["list_name"]
    if not any(re.search(rf"\b{re.escape(lst)}\b", r.get("type", "")) for r in rows_of(form)):
        return None
    rows_of(form).append({"type": "xml-external", "name": lst})
    return {"kind": r"The same instance id will be generated for different external instance source URIs", "row": None, "subject": lst}


def M_duplicate_choice(rng, form):
    ch = form.get("choices")
    if not ch or (form.get("settings") or [{}])[0].get("allow_choice_duplicates"):
        return None
    i = rng.randrange(len(ch))
    ch.insert(i + 1, copy.deepcopy(ch[i]))
    return {"kind": r"On the 'choices' sheet, the 'name' value is invalid. Choice names must be unique", "row": i + 3, "sheet": "choices"}


def M_missing_name(rng, form):
    qs = question_rows(form)
    if not qs:
        return None
    i = rng.choice(qs)
    old = rows_of(form)[i].pop("name")
    if rows_of(form)[i].get("type") == "note":
        return None
    for r in rows_of(form):
        for k, v in list(r.items()):
            if isinstance(v, str) and "${" + old + "}" in v:
                r[k] = v.replace("${" + old + "}", "1")
    return {"kind": r"Question or group with no name", "row": i + 2}


def M_missing_label(rng, form):
    qs = [i for i in question_rows(form) if re.match(r"^(text|integer|decimal|date)$", rows_of(form)[i].get("type", ""))]
    if not qs:
        return None
    i = rng.choice(qs)
    r = rows_of(form)[i]
    for k in [k for k in r if re.match(r"^(label|hint|guidance_hint|media|image|audio|video)", k)]:
        del r[k]
    return {"kind": r"has no label or hint", "row": None, "subject": r["name"]}


def M_duplicate_header(rng, form):
    r0 = rows_of(form)[0]
    r0["Label"] = "dup"
    if "label" not in r0:
        r0["label"] = "L"
    return {"kind": r"Headers that are different names for the same column were found", "row": None, "subject": "Label"}


def M_spaces_in_multi_choice(rng, form):
    # the list may be shared: other kinds of select over it (where a space is harmless) before or after the select_multiple
    others = [{"type": f"{rng.choice(['select_one', 'rank', 'select_one'])} sp_list", "name": f"sp_o{j}", "label": "O"} for j in range(rng.choice([0, 0, 1, 2]))]
    k = rng.randint(0, len(others))
    rows_of(form).extend(others[:k] + [{"type": "select_multiple sp_list", "name": "sp_x", "label": "S"}] + others[k:])
    form.setdefault("choices", []).append({"list_name": "sp_list", "name": "a b", "label": "A"})
    if rng.random() < 0.5:
        form["choices"].append({"list_name": "sp_list", "name": "c", "label": "C"})
    return {"kind": r"Choice names with spaces cannot be added to multiple choice selects", "row": None, "subject": "a b"}


def M_ambiguous_reference(rng, form):
    k = rng.choice([2, 3, 3, 4, 5])
    for j in range(k):
        rows_of(form).append({"type": "begin group", "name": f"amb_g{j}", "label": "G"})
        rows_of(form).append({"type": "text", "name": "amb_name", "label": "A"})
        rows_of(form).append({"type": "end group"})
    rows_of(form).append({"type": "calculate", "name": "amb_ref", "calculation": "${amb_name} + 1"})
    return {"kind": r"There are multiple survey elements", "row": None, "subject": "amb_name"}


def M_or_other_without_choices(rng, form):
    i = rng.randint(0, len(rows_of(form)))
    depth = 0
    for r in rows_of(form)[:i]:
        t = r.get("type", "")
        depth += 1 if re.match(r"^begin[ _]", t) else (-1 if re.match(r"^end[ _]", t) else 0)
    t = rng.choice(["select_one_from_file oo_f.csv or_other", "select_multiple_from_file oo_f.xml or_other", "select_one_from_file oo_f.geojson or other"])
    rows_of(form).insert(i, {"type": t, "name": "oo_x", "label": "O"})
    return {"kind": r"Please specify choices for this 'or other' question", "row": i + 2}


def M_file_instance_clash(rng, form):
    """two selects from files with the same stem and different extensions (or a pulldata/xml-external of that name): one instance id, two sources"""
    stem = rng.choice(["cities", "places_1"])
    e1, e2 = rng.sample([".csv", ".xml", ".geojson"], 2)
    rows = rows_of(form)
    rows.append({"type": f"select_one_from_file {stem}{e1}", "name": "fsel_a9", "label": "A"})
    second = rng.choice(["select", "select", "multi", "xml-external", "csv-external"])
    if second in ("select", "multi"):
        rows.append({"type": f"{'select_one' if second == 'select' else 'select_multiple'}_from_file {stem}{e2}", "name": "fsel_b9", "label": "B"})
    elif e1 == (".xml" if second == "xml-external" else ".csv"):
        return None       # same source twice: not a clash
    else:
        rows.append({"type": second, "name": stem})
    return {"kind": r"The same instance id will be generated for different external instance source URIs", "row": None, "subject": stem}


def M_geopoint_trigger_not_a_question(rng, form):
    """a background-geopoint whose trigger names a group / repeat (not a question), or nothing that exists"""
    kind = rng.choice(["group", "repeat", "lgroup"])
    where = rng.choice(["before", "after", "inside"])
    begin = {"group": "begin group", "repeat": "begin repeat", "lgroup": "begin lgroup"}[kind]
    end = {"group": "end group", "repeat": "end repeat", "lgroup": "end lgroup"}[kind]
    bg = {"type": "background-geopoint", "name": "bg_point", "trigger": "${trg_section}"}
    sect = [{"type": begin, "name": "trg_section", "label": "G"}, {"type": "text", "name": "trg_inner", "label": "T"}, {"type": end}]
    if where == "inside" and kind == "group":
        sect.insert(2, bg)
        rows_of(form).extend(sect)
        row = len(rows_of(form)) - 1 + 2 - 1
    elif where == "before":
        rows_of(form).append(bg)
        row = len(rows_of(form)) - 1 + 2
        rows_of(form).extend(sect)
    else:
        rows_of(form).extend(sect)
        rows_of(form).append(bg)
        row = len(rows_of(form)) - 1 + 2
    return {"kind": r"For 'background-geopoint' questions, the 'trigger' column must be a reference to another question that exists", "row": row}


def M_saveto_in_repeat(rng, form):
    """a save_to cell on a question inside a repeat, directly or with one or two groups in between: entities cannot be created from repeats"""
    if form.get("entities"):
        return None
    depth = rng.choice([0, 1, 1, 2])
    rows = [{"type": "begin repeat", "name": "ent_rep", "label": "R"}]
    rows += [{"type": "begin group", "name": f"ent_g{k}", "label": "G"} for k in range(depth)]
    rows.append({"type": "text", "name": "ent_q", "label": "Q", "save_to": "prop_a"})
    rows += [{"type": "end group"} for _ in range(depth)]
    rows.append({"type": "end repeat"})
    rows_of(form).extend(rows)
    form["entities"] = [{"dataset": "things", "label": "concat('a', 'b')"}]
    return {"kind": r"Currently, you can't create entities from repeats", "row": len(rows_of(form)) + 2 - 1 - depth - 1}


MUTATIONS = [M_bad_parameter_value, M_hidden_trigger, M_saveto_in_repeat, M_geopoint_trigger_not_a_question, M_file_instance_clash, M_ambiguous_reference, M_or_other_without_choices, M_unmatched_end, M_mismatched_end, M_unclosed_begin, M_duplicate_sibling, M_invalid_name, M_unknown_reference, M_malformed_reference,
             M_unknown_type, M_missing_list, M_calculate_without_calculation, M_bad_parameters, M_unknown_parameter, M_instance_clash,
             M_duplicate_choice, M_missing_name, M_missing_label, M_duplicate_header, M_spaces_in_multi_choice]


def add_blank_rows(rng, form, exp):
    """blank rows above the site shift the expected row"""
    rows = rows_of(form) if exp.get("sheet") != "choices" else form["choices"]
    if exp.get("row") is None or rng.random() < 0.5:
        return
    site = exp["row"] - 2
    k = rng.randint(1, 3)
    at = rng.randint(0, site)
    for _ in range(k):
        rows.insert(at, {})
    exp["row"] += k


def as_input(form):
    """dict input in which an empty dict is a blank row"""
    d = forms.as_dict({k: [r for r in v] for k, v in form.items()})
    return d


def _check_mutation(args):
    seed, i = args
    rng = rng_for(seed, PID, "mutation", i)
    prof = forms.Profile(adversarial=0.05, max_rows=rng.choice([4, 8, 14]), p_logic=0.3, p_select=0.35, p_group=0.25, p_repeat=0.2, p_or_other=0.0)
    g = forms.FormGen(rng, prof)
    g.delim = "::"
    form = g.form()
    st, r = outcome(forms.as_dict(form))
    if st != "ok":
        return {"i": i, "skip": f"base form not accepted ({st})"}
    m = MUTATIONS[i % len(MUTATIONS)]
    try:
        exp = m(rng, form)
    except Exception as e:   # noqa: BLE001
        return {"i": i, "skip": f"mutation {m.__name__} not applicable: {e!r}"[:80]}
    if exp is None:
        return {"i": i, "skip": f"mutation {m.__name__} not applicable"}
    add_blank_rows(rng, form, exp)
    st, r = outcome(as_input(form))
    desc = {"form": form, "mutation": m.__name__, "expected": exp, "case": i, "stream": "mutation"}
    if st == "ok":
        return {"i": i, "input": desc, "what": f"{m.__name__}: the broken form was converted instead of being refused (expected: {exp['kind']})"}
    if st == "crash":
        slug = classify(r, form)
        return {"i": i, "input": desc, "what": f"{m.__name__}: internal exception {r[0]} in {r[1]}: {r[2]}", "finding": slug}
    if not re.search(exp["kind"], r):
        return {"i": i, "input": desc, "what": f"{m.__name__}: rejected, but the message does not identify the problem: {r[:200]!r} (expected /{exp['kind']}/)"}
    if exp.get("row") is not None:
        mrow = re.search(r"\[row : (\d+)\]", r)
        if not mrow or int(mrow.group(1)) != exp["row"]:
            return {"i": i, "input": desc, "what": f"{m.__name__}: the message cites row {mrow.group(1) if mrow else None}, the error is on row {exp['row']}: {r[:160]!r}"}
    if exp.get("subject") and exp["subject"].lower() not in r.lower():
        return {"i": i, "input": desc, "what": f"{m.__name__}: the message does not name {exp['subject']!r}: {r[:200]!r}"}
    return {"i": i, "ok": True, "key": (m.__name__, hash(json.dumps(form, sort_keys=True))), "n": 1, "mutation": m.__name__}


# ---- vocabulary fuzz ----------------------------------------------------------------------------------------------------------------
def fuzz_form(rng):
    from pyxform.question_type_dictionary import QUESTION_TYPE_DICT
    if rng.random() < 0.03:
        # an external instance row inside groups of a form written flat
        return {"survey": [{"type": "begin group", "name": "g", "label": "G"}, {"type": rng.choice(["xml-external", "csv-external"]), "name": "city"},
                           {"type": "begin group", "name": "h", "label": "H"}, {"type": rng.choice(["xml-external", "text"]), "name": "town", "label": "T"}, {"type": "end group"},
                           {"type": "text", "name": "q", "label": "Q"}, {"type": "end group"}],
                "settings": [{"flat": rng.choice(["yes", "true", "no"])}]}
    if rng.random() < 0.04:
        # a well-formed loop over a list whose sheet has columns named like the fields of the group built for each choice
        cols = rng.sample(["type", "bind", "control", "children", "flat", "parameters", "media", "hint", "default", "relevant", "trigger", "x"], rng.randint(1, 3))
        return {"survey": [{"type": "begin loop over things", "name": "l", "label": "L"}, {"type": "text", "name": "q", "label": "Q %(label)s"}, {"type": "end loop"}],
                "choices": [{"list_name": "things", "name": n, "label": n.upper(), **{c: rng.choice(["x", "group", "yes"]) for c in cols}} for n in ("car", "bike")]}
    types = list(QUESTION_TYPE_DICT) + ["select_one l", "select_multiple l", "select_one_external l", "select_one_from_file f.csv", "select_multiple_from_file f.xml",
        "rank l", "select_one ${q}", "select_multiple ${q}", "select_one l or_other", "select_one_from_file f.csv or_other", "select_one ${q} or_other",
        "select_one_external l or_other", "select_multiple l or other", "begin group", "end group", "begin repeat", "end repeat", "begin loop over l",
        "end loop", "osm", "osm zz", "osm l", "xml-external", "csv-external", "text ", "select_one", "select_one  l", "begin", "end", "begin group x", "select_one l m",
        "unknown", "Select_One l", "background-geopoint", "entity", "survey", "loop", "group", "repeat", "meta", "children", "question", "audit", "start-geopoint"]
    names = ["a", "b", "q", "q1", "g", "r", "l", "1a", "a b", "a-b", "a.b", "meta", "instanceID", "data", "name", "é", "a:b", "_x", "qqq", "${q}", "x" * 70]
    params = ["randomize=true", "randomize=maybe", "seed=1", "randomize=true seed=x", "start=1 end=2 step=1", "start=a", "max-pixels=abc", "x", "=", "a=b=c",
              "value=v label=l", ";", "rows=3", "quality=low", "allow-mock-accuracy=true", "capture-accuracy=x", "track-changes=true", "location-priority=x"]
    exprs = ["${data}", "count(${data})", "${q}", "${", "${}", "${q", "${q}}", "${ q }", "${nope}", ". > 1", "${q} + ${q1}", "${last-saved#q}", "${last-saved#nope}", "pulldata('f', 'a', 'b', ${q})",
             "indexed-repeat(${q}, ${r}, 1)", "position(..)", "instance('l')/root/item", "${q1}${q}", "$ {q}", "\u0001", "a < b & c", "yes", "no", "search('f')",
             "field-list", "table-list", "label", "list-nolabel", "minimal"]
    cols = ["label", "hint", "relevant", "constraint", "required", "calculation", "default", "choice_filter", "parameters", "appearance", "repeat_count", "trigger",
            "read_only", "constraint_message", "label::en", "hint::fr", "media::image", "image", "bind::x", "body::y", "instance::z", "save_to", "guidance_hint", "jr", "x:jr",
            # column names that mean something inside pyxform
            "bind", "control", "instance", "media", "fields", "action", "bind::nodeset", "body::ref", "bind::tag", "choices", "children", "parent", "extra_data", "query", "itemset",
            "relevant::en", "label::parent", "hint::bind", "noAppErrorString", "bind::jr:noAppErrorString", "body::bodyless",
            "parameters::a", "body::nodeset", "bind::toParseString", "instance::tag", "appearance::x", "trigger::y", "default::en", "choice_filter::z"]
    survey = []
    for _ in range(rng.randint(1, 8)):
        row = {"type": rng.choice(types)}
        if rng.random() < 0.9:
            row["name"] = rng.choice(names)
        if rng.random() < 0.7:
            row["label"] = rng.choice(["L", "${q}", "${nope}", "a ${q} b", "100% done", "%d items", "%(name)s and %(label)s", "%(nope)s", "50%"])
        for c in rng.sample(cols, rng.randint(0, 3)):
            row[c] = rng.choice(params) if c == "parameters" else rng.choice(exprs)
        survey.append(row)
    form = {"survey": survey}
    if rng.random() < 0.8:
        ch = []
        for _ in range(rng.randint(0, 4)):
            r = {"list_name": rng.choice(["l", "m", "l "]), "name": rng.choice(names[:8])}
            if rng.random() < 0.8:
                r["label"] = rng.choice(["A", "${q}"])
            if rng.random() < 0.3:
                r["label::en"] = "E"
            if rng.random() < 0.2:
                r[rng.choice(["cf", "x y", "1a"])] = "v"
            ch.append(r)
        form["choices"] = ch
    if rng.random() < 0.3:
        form["settings"] = [{rng.choice(["form_id", "form_title", "version", "default_language", "public_key", "omit_instanceID", "namespaces", "style", "instance_name",
                                         "allow_choice_duplicates", "name", "type", "children", "title", "id_string", "flat", "sms_keyword", "label", "hint", "bind", "control",
                                         "parent", "choices", "clean_text_values", "add_none_option", "_translations"]): rng.choice(["x", "yes", "${q}", "a b", "1a", "text"])}]
    if rng.random() < 0.2:
        form["external_choices"] = [{"list_name": "l", "name": "a", "label": "A"}]
    if rng.random() < 0.15:
        form["entities"] = [{k: v for k, v in ((rng.choice(["dataset", "list_name", "label"]), rng.choice(["e", "__x", "a.b"])), ("label", rng.choice(["${q}", "x"])))}]
    if rng.random() < 0.1:
        form["osm"] = [{"list_name": rng.choice(["l", "zz"]), "name": "k", "label": "K"}]
    if rng.random() < 0.5:
        rich_sheets(rng, form)
    if any(r.get("type", "").startswith("begin loop over") for r in form["survey"]) and form.get("choices") and rng.random() < 0.6:
        # the list a loop runs over has columns named like the fields of a group
        col = rng.choice(["type", "name", "label", "bind", "control", "children", "flat", "parameters"])
        for r in form["choices"]:
            r.setdefault(col, rng.choice(["x", "group", "text"]))
    if rng.random() < 0.12:
        # a structural column written with a language or sub-key part: type::en, list_name::x, name:fr ...
        sh = rng.choice(sorted(form))
        key = rng.choice(["type", "name", "list_name", "dataset", "list name", "parameters", "entity_id"])
        new = key + rng.choice(["::en", "::x", ":en", "::", " :: x", "::a::b"])
        for r in form[sh]:
            if key in r:
                r[new] = r.pop(key)
    return form


FZ_SETTINGS = {"form_title": ["T", "${q}", "<b>"], "form_id": ["f", "a b", "1a"], "version": ["1", "v 1"], "default_language": ["en", "English (en)", "default", "fr"],
               "public_key": ["abc"], "submission_url": ["http://x/y?a=1&b=2"], "auto_send": ["yes", "x"], "auto_delete": ["true", "no"],
               "namespaces": ['a="http://x"', "a=b", "a", '="x"', 'a="http://x" a="http://y"', 'a:b="x"', '1a="http://x"', 'xmlns="http://x"'],
               "style": ["pages", "theme-grid x"], "instance_name": ["concat('a',${q})", "${nope}", "'x'"], "instance_id": ["uid", "x y"], "instance_xmlns": ["http://x", "a b"],
               "omit_instanceID": ["yes", "no", "x"], "allow_choice_duplicates": ["yes", "bob"], "name": ["data", "1a", "a b", "meta", "a:b:c", "a:", ":a", "a::b", "-x", "2x"], "sms_keyword": ["k"], "attribute::x": ["v"],
               "attribute::a b": ["v"], "attribute::a:b": ["v"], "form_title::en": ["T"], "clean_text_values::en": ["yes"], "add_none_option::x": ["yes"], "default_language::x": ["fr"], "id_string::x": ["i"], "sms_keyword::x": ["k"], "attribute": ["v"], "instance::foo": ["bar"], "entity_features": ["x"], "version::x": ["1"], "clean_text_values": ["no", "yes"], "flat": ["yes"], "id_string": ["x"], "title": ["t"]}
FZ_CHOICE_COLS = ["media", "fields", "bind", "control", "type", "parent", "hint", "default", "label", "label::en", "label::fr", "image", "media::image", "media::image::en", "audio", "video", "big-image", "media::big-image::fr", "cf", "x y", "1a", "name", "value",
                  "list name", "list_name", "sms_option", "geometry", "label::", "::en", "media::", "jr", "a:b"]
FZ_ENT_COLS = ["dataset", "list_name", "label", "entity_id", "create_if", "update_if", "repeat", "x", "dataset ", "Dataset", "name", "type", "parameters"]


def rich_sheets(rng, form):
    """settings values, choices/entities/external_choices/osm sheets with sparse, misnamed and duplicated columns. Cells are never the empty string:
    no reader delivers one (an empty cell is an absent key)."""
    def cell(opts):
        return rng.choice(opts)
    if rng.random() < 0.7:
        form["settings"] = [{k: cell(v) for k, v in rng.sample(sorted(FZ_SETTINGS.items()), rng.randint(1, 4))}]
    if rng.random() < 0.6:
        ch = []
        for _ in range(rng.randint(1, 4)):
            r = {c: cell(["a", "A b", "${q}", "x.png", "1"]) for c in rng.sample(FZ_CHOICE_COLS, rng.randint(1, 4))}
            if rng.random() < 0.8:
                r["list_name"] = rng.choice(["l", "m", "l "])
            if rng.random() < 0.8:
                r["name"] = rng.choice(["a", "b", "a b", "1"])
            ch.append(r)
        form["choices"] = ch
    if rng.random() < 0.4:
        form["entities"] = [{c: cell(["e", "__x", "a.b", "${q}", "true()", "r", "x y"]) for c in rng.sample(FZ_ENT_COLS, rng.randint(1, 4))} for _ in range(rng.choice([1, 1, 2]))]
        if rng.random() < 0.5:
            for r in form["survey"]:
                if rng.random() < 0.4:
                    r["save_to"] = rng.choice(["p", "name", "__p", "a b", "label"])
    if rng.random() < 0.3:
        form["external_choices"] = [{c: cell(["a", "l", "x"]) for c in rng.sample(["list_name", "name", "label", "state", "x y", "list name", "value"], rng.randint(1, 4))}
                                    for _ in range(rng.randint(1, 3))]
    if rng.random() < 0.25:
        form["osm"] = [{c: cell(["a", "l", "zz", "k"]) for c in rng.sample(["list_name", "name", "label", "label::en", "x", "list name"], rng.randint(1, 4))} for _ in range(rng.randint(1, 3))]


def _check_fuzz(args):
    seed, i = args
    rng = rng_for(seed, PID, "fuzz", i)
    form = fuzz_form(rng)
    st, r = outcome(forms.as_dict(form))
    if st == "crash":
        return {"i": i, "input": {"form": form, "case": i, "stream": "fuzz"}, "what": f"internal exception {r[0]} in {r[1]}: {r[2]}", "finding": classify(r, form)}
    return {"i": i, "ok": True, "key": ("fuzz", st, hash(json.dumps(form, sort_keys=True))), "n": 1 if st == "pyxerr" else 0, "class": st}


# ---- a XLSForm given as a dict: typed values (as a JSON document or a spreadsheet library delivers them) and other shapes ----------------
DICT_VALUES = [7, 0, -3, 2.5, 0.00001, 1e16, True, False, None, "", " ", ["a"], {"en": "x"}, {"en": 5}, {"en": None}, ("a",), b"x", 3 + 0j, float("nan"), {1: "x"}]


def dict_shape(rng):
    form = fuzz_form(rng)
    d = forms.as_dict(form)
    if rng.random() < 0.5:
        d.pop("sheet_names", None)
    for _ in range(rng.randint(1, 4)):
        k = rng.random()
        sheets = [sh for sh in ("survey", "choices", "settings", "external_choices", "entities", "osm") if isinstance(d.get(sh), list) and d[sh] and all(isinstance(r, dict) for r in d[sh])]
        if k < 0.6 and sheets:
            sh = rng.choice(sheets)
            row = rng.choice(d[sh])
            col = rng.choice(list(row) or ["label"]) if rng.random() < 0.8 else rng.choice(["label", "default", "required", "version", "name", "parameters", "bind::x", 3, None])
            row[col] = rng.choice(DICT_VALUES)
        elif k < 0.7:
            d[rng.choice(["foo", "surveys", "Survey", "survey_headers", 1])] = rng.choice([[], [{"a": "b"}], "x", None])
        elif k < 0.8 and sheets:
            sh = rng.choice(sheets)
            d[sh] = rng.choice(["x", 5, {"type": "text"}, [["type", "name"]], ["row"], [None]]) if rng.random() < 0.7 else tuple(d[sh])
        elif k < 0.9:
            d[rng.choice(["survey_header", "choices_header", "settings_header"])] = rng.choice(["x", 5, [None], [["type"]], [{"type": None, 3: None}], []])
        else:
            d[rng.choice(["sheet_names", "fallback_form_name"])] = rng.choice([5, "x", ["survey", 3], None, [None], {"a": 1}])
    return d


def _check_dict(args):
    seed, i = args
    rng = rng_for(seed, PID, "dict", i)
    d = dict_shape(rng)
    desc = repr(d)[:1500]
    st, r = outcome(d)
    if st == "crash":
        return {"i": i, "input": {"dict_repr": desc, "case": i, "stream": "dict"}, "what": f"internal exception {r[0]} in {r[1]}: {r[2]}", "finding": classify(r, None)}
    return {"i": i, "ok": True, "key": ("dict", st, hash(desc)), "n": 1 if st == "pyxerr" else 0, "class": "dict-" + st}


CT_CELLS = ["type", "name", "label", "text", "q1", "A b", "", " ", "select_one l", "l", "list_name", "begin group", "end group", "integer", "hint", "x#y", "#", "é", "a\\|b", "-",
            "calculate", "calculation", "1+1", "${q1}", "${", "form_title", "T", "survey", "choices", "settings", "yes", "required", "label::fr", "default", "note", "relevant",
            "dataset", "save_to", "entity", "loop", "children", "bind", "list name", "value", "\u00a0", "a,b"]
CT_SHEETS = ["survey", "choices", "settings", "Survey", "notes", "entities", "external_choices", "osm", "x y", "", "setting", "sheet_names", " survey"]


def container_text(rng):
    """a Markdown or CSV text built from XLSForm vocabulary: ragged rows, empty sheets, unknown sheets, rows above the first sheet"""
    kind = rng.choice(["md", "csv"])

    def md_line():
        k = rng.random()
        if k < 0.06:
            return rng.choice(["", " ", "# c", "|", "||", "| |", "|---|---|", "text"])
        if k < 0.25:
            return "| " + rng.choice(CT_SHEETS) + rng.choice([" |", " | ", " | a |", "|"])
        return "| | " + " | ".join(rng.choice(CT_CELLS) for _ in range(rng.randint(0, 5))) + rng.choice([" |", " | ", "", "", " | x"])

    def csv_line():
        k = rng.random()
        if k < 0.06:
            return rng.choice(["", " ", ",", ",,", "x"])
        if k < 0.25:
            return rng.choice(CT_SHEETS + ['"survey"']) + rng.choice(["", ",", ",a"])
        return "," + ",".join(rng.choice(CT_CELLS).replace(",", ";") for _ in range(rng.randint(0, 5)))
    hdr = {"md": "| survey |\n| | type | name | label |\n", "csv": "survey\n,type,name,label\n"}[kind] if rng.random() < 0.6 else ""
    return kind, hdr + "\n".join((md_line if kind == "md" else csv_line)() for _ in range(rng.randint(1, 7))) + "\n"


def _check_container(args):
    seed, i = args
    rng = rng_for(seed, PID, "container", i)
    kind, text = container_text(rng)
    from pyxform.xls2xform import convert
    from pyxform.errors import PyXFormError
    try:
        convert(text, file_type="." + kind)
        st = "ok"
    except PyXFormError:
        st = "pyxerr"
    except Exception as e:   # noqa: BLE001
        frames = [f for f in traceback.extract_tb(e.__traceback__) if "/pyxform/" in f.filename]
        fn = frames[-1].name if frames else "?"
        crash = (type(e).__name__, fn, str(e)[:120])
        # the findings are predicates over the row dicts; read the text back with the library's own reader to apply them
        form = None
        try:
            from pyxform.xls2json_backends import md_to_dict, csv_to_dict
            d = (md_to_dict if kind == "md" else csv_to_dict)(text)
            form = {k: v for k, v in d.items() if isinstance(v, list) and not k.endswith("_header") and k != "sheet_names"}
        except Exception:   # noqa: BLE001
            form = None
        return {"i": i, "input": {"text": text, "file_type": "." + kind, "case": i, "stream": "container"}, "what": f"{kind} text: internal exception {crash[0]} in {crash[1]}: {crash[2]}",
                "finding": classify(crash, form)}
    return {"i": i, "ok": True, "key": ("container", kind, st, hash(text)), "n": 1 if st == "pyxerr" else 0, "class": f"{kind}/{st}"}


_GOOD_XLSX = None


def _check_bytes(args):
    """unreadable contents: random bytes under every file_type, truncated and bit-damaged workbooks"""
    global _GOOD_XLSX
    seed, i = args
    rng = rng_for(seed, PID, "bytes", i)
    from pyxform.xls2xform import convert
    from pyxform.errors import PyXFormError
    if _GOOD_XLSX is None:
        _GOOD_XLSX = forms.as_xlsx_bytes({"survey": [{"type": "text", "name": "q", "label": "L"}, {"type": "select_one l", "name": "s", "label": "S"}],
                                          "choices": [{"list_name": "l", "name": "a", "label": "A"}]})
    kind = rng.choice(["random", "random", "truncated", "damaged", "damaged", "typed"])
    ft = rng.choice([None, ".xlsx", ".xls", ".csv", ".md", ".xlsm"])
    if kind == "typed":
        # a well-formed workbook whose cells -- header cells included -- are typed as numbers, booleans, dates or formulas-as-text
        import datetime as _dt
        import io as _io
        import openpyxl as _px
        wb = _px.Workbook()
        ws = wb.active
        ws.title = "survey"
        odd = [5, 2.5, True, False, _dt.datetime(2020, 1, 2, 3, 4, 5), _dt.date(2021, 2, 3), _dt.time(4, 5, 6), 0, -1, 1e20, "5", " x ", None]
        hdr = ["type", "name", "label"] + [rng.choice(odd) for _ in range(rng.randint(0, 3))]
        rng.shuffle(hdr)
        ws.append(hdr)
        for _ in range(rng.randint(0, 3)):
            ws.append([rng.choice(["text", "integer", "note", 7, True, None]) if h == "type" else (rng.choice(["q", "a1", 3, 4.5, True, None]) if h == "name" else rng.choice(odd + ["L"])) for h in hdr])
        if rng.random() < 0.5:
            ws2 = wb.create_sheet(rng.choice(["choices", "settings", "Sheet2", "entities"]))
            ws2.append([rng.choice(["list_name", "name", "label", "form_id", 1, 2.0, True]) for _ in range(rng.randint(1, 4))])
            ws2.append([rng.choice(odd + ["l", "a"]) for _ in range(rng.randint(1, 4))])
        buf = _io.BytesIO()
        wb.save(buf)
        data = buf.getvalue()
        ft = rng.choice([None, ".xlsx", ".xlsm"])
    elif kind == "random":
        data = bytes(rng.randrange(256) for _ in range(rng.randint(0, 80)))
    elif kind == "truncated":
        data = _GOOD_XLSX[:rng.randint(0, len(_GOOD_XLSX))]
    else:
        b = bytearray(_GOOD_XLSX)
        for _ in range(rng.randint(1, 6)):
            b[rng.randrange(len(b))] = rng.randrange(256)
        data = bytes(b)
    try:
        convert(data, **({"file_type": ft} if ft else {}))
        st = "ok"
    except PyXFormError:
        st = "pyxerr"
    except Exception as e:   # noqa: BLE001
        frames = [f for f in traceback.extract_tb(e.__traceback__) if "/pyxform/" in f.filename]
        return {"i": i, "input": {"bytes_hex": data.hex(), "file_type": ft, "case": i, "stream": "bytes"},
                "what": f"{kind} bytes (file_type={ft}): internal exception {type(e).__name__} in {frames[-1].name if frames else '?'}: {str(e)[:100]}", "finding": None}
    return {"i": i, "ok": True, "key": ("bytes", kind, ft, st, hash(data)), "n": 1 if st == "pyxerr" else 0, "class": f"bytes/{kind}/{st}"}


def oracle(seed, tier, searching=False):
    nm, nf = (540, 1500) if tier == "quick" else (9000, 30000)
    if searching:
        nm, nf = nm * 3, nf * 3
    res_m = pmap(_check_mutation, [(seed, i) for i in range(nm)])
    res_f = pmap(_check_fuzz, [(seed, i) for i in range(nf)])
    res_c = pmap(_check_container, [(seed, i) for i in range(nf // 2)])
    res_b = pmap(_check_bytes, [(seed, i) for i in range(nf // 5)])
    res_d = pmap(_check_dict, [(seed, i) for i in range(nf // 3)])
    res_f = res_f + res_c + res_b + res_d
    res = res_m + res_f
    fails = [r for r in res if "what" in r]
    oks = [r for r in res if r.get("ok")]
    fails.sort(key=lambda f: f.get("finding") is not None)          # unknown failures first
    per_mut, skips, classes = {}, {}, {}
    for r in res_m:
        if r.get("ok"):
            per_mut[r["mutation"]] = per_mut.get(r["mutation"], 0) + 1
        if "skip" in r:
            skips[r["skip"][:50]] = skips.get(r["skip"][:50], 0) + 1
    for r in res_f:
        if r.get("ok"):
            classes[r["class"]] = classes.get(r["class"], 0) + 1
    known_hits = {}
    for f in fails:
        if f.get("finding"):
            known_hits[f["finding"]] = known_hits.get(f["finding"], 0) + 1
    # one representative per known finding is enough for the report
    seen, kept = set(), []
    for f in fails:
        if f.get("finding"):
            if f["finding"] in seen:
                continue
            seen.add(f["finding"])
        kept.append(f)
    return {
        "evaluations": len(res), "distinct_nontrivial": len({r["key"] for r in oks if r["n"] > 0}),
        "rule": "mutation stream: 20 catalogued breaking mutations (ambiguous reference, or_other without choices, unbalanced/mismatched/unclosed begin-end, duplicate and invalid names, unknown and "
                "malformed references, unknown type, missing list, calculate without calculation, bad/unknown parameters, instance-id clash, duplicate "
                "choice, missing name/label, duplicate header, spaces in select_multiple choice) applied at random sites of accepted generated forms, "
                "with blank rows above the site: the form must be refused with the library's error, the message must match the kind, cite the right "
                "row where the kind carries one and name the subject; fuzz stream: rows drawn from the XLSForm vocabulary (all question types and "
                "select/group/osm/external spellings, valid and invalid names, parameters, references, appearances, entities/osm/external sheets): the "
                "only outcomes are a result or the library's error; container stream: Markdown and CSV TEXTS built from the same vocabulary (ragged rows, sheet names with no rows, "
                "unknown and misspelt sheets, rows above the first sheet name, settings columns named after internal keys) through convert(): same demand; dict stream: the fuzz forms as dicts "
                "with numbers, booleans, None, lists, nested dicts and other objects as cell values, unknown keys, sheets and header lists of other shapes: same demand; bytes stream: random bytes, "
                "truncated and bit-damaged workbooks under every file_type: same demand",
        "accepted": len(oks), "mutations_checked": per_mut, "skipped": skips, "fuzz_outcomes": classes, "known_finding_hits": known_hits,
        "failures": [{"input": f["input"], "what": f["what"], "finding": f.get("finding"),
                      "reproduce": "cd /verif && /venv/bin/python harness/check.py C17 --replay <this file>"} for f in kept[:12]],
        "samples": [{"mutation": r.get("mutation"), "case": r["i"]} for r in oks[:3]],
    }


def replay_finding(slug):
    form = FINDING_INPUTS.get(slug)
    if not form:
        return None
    st, r = outcome(forms.as_dict(form))
    if st == "crash" and classify(r, form) == slug:
        return {"input": {"form": form}, "what": f"internal exception {r[0]} in {r[1]}: {r[2]}", "finding": slug}
    return None


def replay(path: Path) -> int:
    payload = json.loads(Path(path).read_text())
    inp = payload["input"]
    if "bytes_hex" in inp:
        from pyxform.xls2xform import convert
        from pyxform.errors import PyXFormError
        try:
            convert(bytes.fromhex(inp["bytes_hex"]), **({"file_type": inp["file_type"]} if inp.get("file_type") else {}))
        except PyXFormError as e:
            print("library error:", str(e)[:200])
            return 0
        except Exception as e:   # noqa: BLE001
            print(f"internal exception {e!r}")
            print(f"VIOLATION property={PID} replay={path}")
            return 1
        print("converted")
        return 0
    if "text" in inp:
        from pyxform.xls2xform import convert
        from pyxform.errors import PyXFormError
        try:
            convert(inp["text"], file_type=inp["file_type"])
        except PyXFormError as e:
            print("library error:", str(e)[:200])
            return 0
        except Exception as e:   # noqa: BLE001
            print(f"internal exception {e!r}")
            print(f"VIOLATION property={PID} replay={path}")
            return 1
        print("converted")
        return 0
    st, r = outcome(as_input(inp["form"]))
    if st == "crash":
        print(f"internal exception {r[0]} in {r[1]}: {r[2]}")
        print(f"VIOLATION property={PID} replay={path}")
        return 1
    exp = inp.get("expected")
    if exp:
        bad = st == "ok" or not re.search(exp["kind"], r) or (exp.get("row") is not None and f"[row : {exp['row']}]" not in r)
        if bad:
            print(f"expected rejection /{exp['kind']}/ row {exp.get('row')}; got {st}: {str(r)[:200]}")
            print(f"VIOLATION property={PID} replay={path}")
            return 1
    print(f"outcome on this tree: {st}")
    return 0
