"""C18 — validator verdicts are honoured and failures leave no residue."""

from __future__ import annotations

import io
import json
import re
import logging
import os
import shutil
import stat
import sys
import tempfile
from pathlib import Path

from common import cstr, clist, cbool, rng_for
from opbase import Op
import forms

PID = "C18"
GUARD = "lookup tmp f = None (the temporary name is fresh), out/itemsets paths differ from it"
MODELLED = ("check_xform's decision and _validator_args_logic are TRANSLATED (coq/Gen/Validate.v); ErrorCleaner, Survey.to_xml / "
            "print_xform_to_file, xls2xform_convert and main_cli are hand-modelled over an abstract file system (coq/Model/{Cleaner,Cli}.v). "
            "Not exhibited by the model: real signal delivery, the 100 s watchdog racing communicate(), disk-full during write — the "
            "timeout path is exercised on the implementation with a 1 s watchdog and a sleeping stand-in validator")
ASSUMPTIONS = ["POSIX unlink/open semantics of the abstract file system", "tempfile.NamedTemporaryFile returns a fresh name",
               "the external validator is represented by its outcome (java present, watchdog fired, return code, stderr)"]
TRUSTED_EXTRA = ["stand-in `java` executable on a private PATH (exit code, stderr payload, self-kill, sleep) under a private TMPDIR"]

FAKE_JAVA = """#!/bin/sh
if [ -n "$FAKE_SLEEP" ]; then sleep "$FAKE_SLEEP"; fi
if [ -n "$FAKE_STDERR_FILE" ]; then cat "$FAKE_STDERR_FILE" >&2; fi
if [ -n "$FAKE_KILL" ]; then kill -9 $$; fi
exit ${FAKE_RC:-0}
"""

RAW_STDERRS = [b"\x81\x8d\x8f\x90\x9d bad label\n", b"Error evaluating field '/data/q1': \x81\xe9\n", b"warning: \xff\xfe \x90\n",
               b"java.lang.RuntimeException: \x9d /data/household-size > 3\n", bytes(range(128, 256)) + b"\n"]
STDERRS = [
    "", "warning: something\n", "Error evaluating field '/data/q1': bad\n/data/g/q-1 is wrong\n",
    "org.javarosa.xform.parse.XFormParseException: Cycle detected /data/a/b\n\tat org.javarosa.Foo.bar(Foo.java:12)\n\tat x.y(Z.java:3)\nCaused by: x\n",
    "java.lang.RuntimeException: oops /data/household-size > 3\njava.lang.RuntimeException: oops /data/household-size > 3\nsame\nsame\n",
    "/html/body/select1[@ref=/data/el]/item/value and /root/item/name and /html/head/model/bind[2] /data/x/item/value\n",
    "Error: Unable to access jarfile /some/path/ODK_Validate.jar\n",
    "a /A/B_c/d-e f /x /y/ //z/w /1/2/3\r\nline2\rline3\n\n",
    "java.lang.NullPointerException\nat the /data/hh-details/per_head node\n  \n",
    ">> Something broke parsing the form /data/meta/instanceID\n", "x\ty /data/q\tat /data/r\n",
    "java.lang.RuntimeException: org.javarosa.xpath.XPathUnhandledException: cannot handle function 'foo' at /data/q1\n",
    "java.lang.RuntimeException: org.javarosa.xform.parse.XFormParseException: bad bind /data/g/q-1\njava.lang.RuntimeException: java.lang.NullPointerException\n",
    # a diagnostic that merely begins like the launcher's own message: cleaned like any other
    "Error: could not evaluate /data/q1\n\tat org.javarosa.Foo.bar(Foo.java:12)\n",
    "Error: Invalid or corrupt input /data/household-size\njava.lang.RuntimeException: bad /data/q1\n\tat x.y(Z.java:3)\n",
    "Error: /data/q1 depends on itself\n",
    # names of other alphabets, and the tail of a stack trace
    "Cycle detected at /data/größe and /data/日本/名前.\n\tat x.y(Z.java:3)\nCaused by: z\n\t... 12 more\n",
]


def zlit(n):
    return f"({n})%Z"


class CheckXformOp(Op):
    """check_xform over the outcome type, against the Python function with the validator call stubbed by its outcome"""
    name = "V.check_xform"
    imports = ["Coq.ZArith.ZArith", "PX.Model.Cli"]
    fn = ("fun o => match check_xform o with Raise EOs => [79;83]%N | Raise (EOdkValidate m) => 69%N :: m | Raise (EPyxform m) => 80%N :: m "
          "| Ret ws => 87%N :: join [1%N] ws end")
    in_ty = "outcome"
    n_quick, n_thorough = 250, 2500

    def generate(self, rng, n):
        import pyxform.validators.odk_validate as ov
        from pyxform.validators.util import PopenResult
        cases = []
        orig_call, orig_which = ov._call_validator, ov.shutil.which
        try:
            for i in range(n):
                java = rng.random() < 0.9
                timeout = rng.random() < 0.12
                rc = rng.choice([0, 0, 0, 1, 1, 2, 3, 127, 143, 255, -9, -15, -1])
                err = rng.choice(STDERRS)
                if rng.random() < 0.3:
                    err = err.replace("/data/", rng.choice(["/Data_1/", "/my-form/grp/", "/d/"]))
                ov.shutil.which = (lambda cmd, _j=java: "/usr/bin/java" if _j else None)
                ov._call_validator = lambda path_to_xform, bin_file_path=None, _r=(rc, timeout, err): PopenResult(_r[0], _r[1], b"", _r[2].encode())
                try:
                    ws = ov.check_xform("/nonexistent.xml")
                    exp = "W" + "\x01".join(ws)
                except ov.ODKValidateError as e:
                    exp = "E" + str(e)
                except OSError:
                    exp = "OS"
                coq = f"{{| java_present := {cbool(java)}; timed_out := {cbool(timeout)}; rc := {zlit(rc)}; stderr := {cstr(err)} |}}"
                cases.append({"coq": coq, "expected": exp, "desc": {"java": java, "timeout": timeout, "rc": rc, "stderr": err},
                              "class": ("nojava" if not java else "timeout" if timeout else "rc>0" if rc > 0 else "rc=0" if rc == 0 else "rc<0")})
        finally:
            ov._call_validator, ov.shutil.which = orig_call, orig_which
        return cases


class CleanerOp(Op):
    name = "V.error_cleaner"
    imports = ["PX.Model.Cleaner"]
    fn = "odk_validate_clean"
    in_ty = "list N"
    n_quick, n_thorough = 250, 3000

    def generate(self, rng, n):
        from pyxform.validators.error_cleaner import ErrorCleaner
        frag = ["/data/q1", "/data/g/q-1", "/a", "/html/body/x", "/root/item/n", "/html/head/model/bind", "/data/x/item/value", "\n", "\n", " ", "x", "\tat",
                ".java:", "Foo.java:3", "java.lang.RuntimeException: ", "java.lang.NullPointerException", "org.javarosa.xpath.XPathUnhandledException: ",
                "org.javarosa.xform.parse.XFormParseException", "\njava.lang.RuntimeException: org.javarosa.xpath.XPathUnhandledException: ",
                "\njava.lang.RuntimeException: java.lang.NullPointerException", "\norg.javarosa.xpath.XPathUnhandledException: org.javarosa.xform.parse.XFormParseException: ",
                "\njava.lang.RuntimeException: org.javarosa.xform.parse.XFormParseException", "\njava.lang.NullPointerExceptionorg.javarosa.xform.parse.XFormParseException", "/", "//", "-", "_", "/A/b", "/9/8", "\r\n", "same\nsame", "é", ":", "${q}", "/data/hh-size/p_h", "\r", " \n", "Error: ", "Error: Unable to access jarfile", "Error: Unable", "\nError: ", "jarfile",
                "/data/größe", "/data/日本/名前", "/d/ñ", "/data/a.b", "/data/q1.", ".", "ß", "·", "/data/K/ſ", "/a/‿b", "/a/b\u0301", "/a/×", "/a/÷b", "\t... 12 more", "... 3 more", "... more", "\n\t... 1 more\n",
                "Caused by: x", " ... 2 more ", "... ١٢ more"]
        cases = []
        for i in range(n):
            s = rng.choice(STDERRS) if i < len(STDERRS) * 2 else "".join(rng.choice(frag) for _ in range(rng.randint(1, 9)))
            if i < len(STDERRS):
                s = STDERRS[i]
            exp = ErrorCleaner.odk_validate(s)
            cases.append({"coq": cstr(s), "expected": exp, "desc": {"stderr": s}, "class": "changed" if exp != s else "unchanged", "nontrivial": exp != s})
        return cases


# ---- the CLI and the library against a stand-in java ------------------------------------------------------
MD_OK = "| survey |\n| | type | name | label |\n| | text | q1 | Q |\n"
MD_WARN = "| survey |\n| | type | name | label |\n| | image | q1 | Q |\n"
MD_ITEMS = ("| survey |\n| | type | name | label | choice_filter |\n| | text | st | S | |\n| | select_one_external c | q1 | Q | state=${st} |\n"
            "| choices |\n| | list_name | name | label |\n| | c | a | A |\n"
            "| external_choices |\n| | list_name | name | state |\n| | c | x | s1 |\n")
MD_BAD = "| survey |\n| | type | name | label |\n| | begin group | g | G |\n| | text | q1 | Q |\n"


class Sandbox:
    """private PATH (stand-in java or none), private TMPDIR, working dir for inputs and outputs"""

    def __init__(self):
        self.root = Path(tempfile.mkdtemp(prefix="pxv-c18-"))
        self.bin = self.root / "bin"; self.nobin = self.root / "nobin"; self.tmp = self.root / "tmp"; self.work = self.root / "work"
        for d in (self.bin, self.nobin, self.tmp, self.work):
            d.mkdir()
        j = self.bin / "java"
        j.write_text(FAKE_JAVA)
        j.chmod(j.stat().st_mode | stat.S_IEXEC)
        self.saved = {k: os.environ.get(k) for k in ("PATH", "TMPDIR", "FAKE_RC", "FAKE_STDERR_FILE", "FAKE_KILL", "FAKE_SLEEP")}
        self.saved_tempdir = tempfile.tempdir

    def set(self, java, rc, err, kill=False, sleep=None):
        os.environ["PATH"] = str(self.bin if java else self.nobin) + ":/bin:/usr/bin" if java else str(self.nobin)
        if java:
            os.environ["PATH"] = f"{self.bin}:/bin"
        os.environ["TMPDIR"] = str(self.tmp)
        tempfile.tempdir = str(self.tmp)
        os.environ["FAKE_RC"] = str(rc)
        ef = self.root / "stderr.txt"
        ef.write_bytes(err if isinstance(err, bytes) else err.encode())
        os.environ["FAKE_STDERR_FILE"] = str(ef)
        for k, v in (("FAKE_KILL", "1" if kill else None), ("FAKE_SLEEP", sleep)):
            if v is None:
                os.environ.pop(k, None)
            else:
                os.environ[k] = str(v)

    def close(self):
        for k, v in self.saved.items():
            if v is None:
                os.environ.pop(k, None)
            else:
                os.environ[k] = v
        tempfile.tempdir = self.saved_tempdir
        shutil.rmtree(self.root, ignore_errors=True)


def run_cli(sb: Sandbox, md: str, flags: list[str], pre_existing: bool):
    """main_cli() in-process. Returns (json response | None, logged error?, uncaught exception?, out state, tmp residue, itemsets state)"""
    import pyxform.xls2xform as x2
    for f in sb.work.iterdir():
        f.unlink()
    src = sb.work / "form.md"
    src.write_text(md)
    out = sb.work / "out.xml"
    if pre_existing:
        out.write_text("old")
    records = []

    class H(logging.Handler):
        def emit(self, rec):
            records.append(rec)
    h = H()
    x2.logger.addHandler(h)
    saved_handlers = [hh for hh in x2.logger.handlers if hh is not h]
    for hh in saved_handlers:
        x2.logger.removeHandler(hh)
    argv = sys.argv
    sys.argv = ["xls2xform", str(src), str(out), *flags]
    uncaught = False
    try:
        x2.main_cli()
    except SystemExit:
        uncaught = True
    except Exception:
        uncaught = True
    finally:
        sys.argv = argv
        x2.logger.removeHandler(h)
        for hh in saved_handlers:
            x2.logger.addHandler(hh)
    resp = None
    logged_error = any(r.levelno >= logging.ERROR for r in records)
    if "--json" in flags:
        for r in records:
            try:
                resp = json.loads(r.getMessage())
            except Exception:
                pass
    out_state = out.read_bytes().decode("utf-8") if out.exists() else None
    items = (sb.work / "itemsets.csv")
    residue = sorted(p.name for p in sb.tmp.iterdir())
    return resp, logged_error, uncaught, out_state, residue, (items.read_bytes().decode("utf-8") if items.exists() else None)


class CliOp(Op):
    """main_cli (JSON and plain) and the library call, under every validator outcome, against Model/Cli.v"""
    name = "V.cli"
    imports = ["Coq.ZArith.ZArith", "PX.Model.Cli"]
    fn = ("fun p => let '(cerr, has_items, warns, js, skip, odk, enk, o, pre) := p in "
          "let c := if (cerr : bool) then Raise (EPyxform []) else Ret ([88%N], (if (has_items : bool) then Some [73%N] else None), (if (warns : bool) then [[87%N]] else [])) in "
          "let f0 := if (pre : bool) then [([79%N], [111;108;100]%N)] else [] in "
          "let show := fun (x : option (list N)) => match x with Some v => v | None => [45%N] end in "
          "if (js : bool) then (let r := main_cli_json c [84%N] [79%N] [73%N] skip odk enk o f0 in "
          "  dec (fst r) ++ [124%N] ++ show (lookup [79%N] (snd r)) ++ [124%N] ++ show (lookup [84%N] (snd r)) ++ [124%N] ++ show (lookup [73%N] (snd r))) "
          "else (let r := main_cli_plain c [84%N] [79%N] [73%N] skip odk enk o f0 in "
          "  (if fst (fst r) then [76%N] else [108%N]) ++ (if snd (fst r) then [85%N] else [117%N]) ++ [124%N] ++ show (lookup [79%N] (snd r)) ++ [124%N] ++ show (lookup [84%N] (snd r)) ++ [124%N] ++ show (lookup [73%N] (snd r)))")
    in_ty = "(bool * bool * bool * bool * bool * bool * bool * outcome * bool)"
    n_quick, n_thorough = 70, 500

    def generate(self, rng, n):
        from pyxform.xls2xform import convert
        sb = Sandbox()
        cases = []
        try:
            libs = {}
            for name, md in (("ok", MD_OK), ("warn", MD_WARN), ("items", MD_ITEMS)):
                refp = sb.root / "form.md"        # same stem as the CLI input: the path supplies the default form id
                refp.write_text(md)
                r = convert(str(refp), pretty_print=False)
                libs[name] = (r.xform, r.itemsets, bool(r.warnings))
            for i in range(n):
                kind = rng.choice(["ok", "ok", "warn", "items", "bad"])
                md = {"ok": MD_OK, "warn": MD_WARN, "items": MD_ITEMS, "bad": MD_BAD}[kind]
                js = rng.random() < 0.5
                flagset = rng.choice([[], [], ["--skip_validate"], ["--odk_validate"], ["--odk_validate", "--skip_validate"]])
                java = rng.random() < 0.85
                rc = rng.choice([0, 0, 0, 1, 2, 255, 3])
                kill = rng.random() < 0.1
                err = rng.choice(STDERRS)
                pre = rng.random() < 0.4
                sb.set(java, rc, err, kill=kill)
                resp, logged, uncaught, out_state, residue, items = run_cli(sb, md, (["--json"] if js else []) + flagset, pre)
                if kill:
                    rc_eff = -9
                else:
                    rc_eff = rc
                xml_c, items_c, warns_c = libs.get(kind, (None, None, False))
                # pretty_print is off by default in the CLI, so the library's compact result is the reference
                def show_out(s):
                    if s is None:
                        return "-"
                    if s == "old":
                        return "old"
                    return "X" if s == xml_c else "?" + s[:40]
                def show_items(s):
                    return "-" if s is None else ("I" if s == items_c else "?")
                tmp_s = "-" if not residue else "RESIDUE:" + ",".join(residue)
                if js:
                    exp = f"{resp.get('code') if resp else 'noresp'}|{show_out(out_state)}|{tmp_s}|{show_items(items)}"
                else:
                    exp = ("L" if logged else "l") + ("U" if uncaught else "u") + f"|{show_out(out_state)}|{tmp_s}|{show_items(items)}"
                skip = "--skip_validate" not in flagset     # argparse store_false: True when the flag is absent
                odk = "--odk_validate" in flagset
                o = f"{{| java_present := {cbool(java)}; timed_out := false; rc := {zlit(rc_eff)}; stderr := {cstr(err)} |}}"
                coq = (f"({cbool(kind == 'bad')}, {cbool(kind == 'items')}, {cbool(kind == 'warn')}, {cbool(js)}, {cbool(skip)}, {cbool(odk)}, false, {o}, {cbool(pre)})")
                cases.append({"coq": coq, "expected": exp, "desc": {"form": kind, "json": js, "flags": flagset, "java": java, "rc": rc_eff, "stderr": err, "pre_existing_output": pre},
                              "class": f"{kind}/{'json' if js else 'plain'}/{'nojava' if not java else 'rc' + str(rc_eff)}"})
        finally:
            sb.close()
        return cases


def ops(tier):
    return [CheckXformOp(), CleanerOp(), CliOp()]


# ---- direct oracle: library + CLI outcome table and residue, evaluated on the implementation -------------
def oracle(seed, tier, searching=False):
    from pyxform.xls2xform import convert
    import pyxform.validators.odk_validate as ov
    from pyxform.errors import PyXFormError
    rng = rng_for(seed, PID, "oracle")
    sb = Sandbox()
    fails, n, keys = [], 0, set()
    n_lib = 60 if tier == "quick" else 600
    try:
        ref = convert(MD_WARN, pretty_print=True)
        for i in range(n_lib):
            java = rng.random() < 0.85
            rc = rng.choice([0, 0, 1, 2, 3, 143, 255])
            kill = rng.random() < 0.1
            err = rng.choice(STDERRS)
            raw = None
            if rng.random() < 0.25:
                # a JVM on a legacy console code page: output that is not UTF-8, every byte value included (decoded as latin-1, never an error)
                raw = rng.choice(RAW_STDERRS)
                err = raw.decode("latin-1")
            md = rng.choice([MD_OK, MD_WARN, MD_BAD, MD_ITEMS])
            sb.set(java, rc, raw if raw is not None else err, kill=kill)
            n += 1
            keys.add((java, rc, kill, err, md))
            want = "OSError" if not java else ("ODKValidateError" if (rc > 0 and not kill) else "ok")
            if md == MD_BAD:
                want = "PyXFormError"
            try:
                r = convert(md, validate=True, pretty_print=rng.random() < 0.5)
                got = "ok"
            except ov.ODKValidateError as e:
                got = "ODKValidateError"
                msg = str(e)
                if ".java:" in msg or "\tat " in msg:
                    fails.append({"what": "Java stack noise survives in the validation error", "input": {"stderr": err}, "observed": msg})
                # exception class prefixes (the validator wraps them as RuntimeException: <inner class>: <diagnostic>) are noise too
                noisy = [ln for ln in msg.split("\n") if ln.startswith(("java.lang.RuntimeException", "org.javarosa.xpath.XPathUnhandledException",
                                                                          "java.lang.NullPointerException", "org.javarosa.xform.parse.XFormParseException"))]
                if noisy:
                    fails.append({"what": f"a Java exception class name survives at the start of a diagnostic line: {noisy[0][:120]!r}", "input": {"stderr": err}, "observed": msg})
                if "/data/q1" in err and "${q1}" not in msg and "jarfile" not in err:
                    fails.append({"what": "instance path not shown as ${name}", "input": {"stderr": err}, "observed": msg})
                if "/data/größe" in err and ("${größe}" not in msg or "${名前}" not in msg):
                    fails.append({"what": "instance path of non-ASCII names not shown as ${name}", "input": {"stderr": err}, "observed": msg})
                if re.search(r"(?m)^\s*\.\.\. \d+ more\s*$", msg):
                    fails.append({"what": "the '... N more' tail of a Java stack trace survives in the validation error", "input": {"stderr": err}, "observed": msg})
                if "/data/household-size" in err and "${household-size}" not in msg:
                    fails.append({"what": "instance path with a hyphen not shown as ${name}", "input": {"stderr": err}, "observed": msg})
            except PyXFormError:
                got = "PyXFormError"
            except OSError:
                got = "OSError"
            except Exception as e:
                got = repr(e)
            if got != want:
                fails.append({"what": f"library outcome {got}, documented {want}", "input": {"java": java, "rc": rc, "killed": kill, "stderr": err, "form": md}})
            if got == "ok" and md != MD_BAD:
                if (rc == 0 and not kill and err) and not any(err.strip() in w for w in r.warnings):
                    fails.append({"what": "validator stderr not surfaced as a warning", "input": {"stderr": err}, "observed": r.warnings})
            residue = sorted(p.name for p in sb.tmp.iterdir())
            if residue:
                fails.append({"what": f"temporary file(s) survive the call: {residue}", "input": {"java": java, "rc": rc, "killed": kill, "form": md}})
                for p in sb.tmp.iterdir():
                    p.unlink()
        # the watchdog path, with a 1 s timeout and a validator that sleeps 3 s
        from pyxform.validators.util import run_popen_with_timeout
        orig = ov._call_validator
        # the command-line tool, judged by the property's own wording (no model involved): a rejected or failed conversion leaves NO XForm at
        # the output path (a file that was there before included) and reports failure; an accepted one writes the library's result
        n_cli = 40 if tier == "quick" else 300
        libs = {}
        for name, md in (("ok", MD_OK), ("warn", MD_WARN), ("items", MD_ITEMS)):
            refp = sb.root / "form.md"
            refp.write_text(md)
            libs[name] = convert(str(refp), pretty_print=False)
        for i in range(n_cli):
            kind = rng.choice(["ok", "warn", "items", "bad"])
            md = {"ok": MD_OK, "warn": MD_WARN, "items": MD_ITEMS, "bad": MD_BAD}[kind]
            js = rng.random() < 0.5
            rc = rng.choice([0, 1, 2, 255])
            err = rng.choice(STDERRS)
            pre = rng.random() < 0.5
            sb.set(True, rc, err)
            n += 1
            keys.add(("cli", kind, js, rc, pre))
            resp, logged, uncaught, out_state, residue, items = run_cli(sb, md, ["--json"] if js else [], pre)
            inp = {"cli": True, "form": kind, "json": js, "rc": rc, "stderr": err, "pre_existing_output": pre}
            failed = kind == "bad" or rc > 0
            if failed:
                if out_state is not None and kind != "bad" and not (js and out_state == "old"):      # --json: nothing written (an earlier file is left alone); plain: the output file is removed      # the property speaks of the output path for validator rejections; a conversion error only has to report failure
                    fails.append({"what": f"the command-line tool ({'--json' if js else 'plain'}) left {'the earlier file' if out_state == 'old' else 'an XForm'} at the output path "
                                          f"although the {'conversion failed' if kind == 'bad' else 'validator rejected the form'}", "input": inp})
                if js and (resp or {}).get("code") != 999:
                    fails.append({"what": f"--json reports code {(resp or {}).get('code')} instead of 999 for a failed conversion", "input": inp})
                if not js and not (logged or uncaught):
                    fails.append({"what": "plain mode neither logged an error nor raised for a failed conversion", "input": inp})
            else:
                if out_state != libs[kind].xform:
                    fails.append({"what": "the file written by the command-line tool differs from the library result", "input": inp, "observed": (out_state or "")[:500]})
                if kind == "items" and items != libs[kind].itemsets:
                    fails.append({"what": "itemsets.csv beside the output differs from the library's itemsets", "input": inp})
                if js and (resp or {}).get("code") not in (100, 101):
                    fails.append({"what": f"--json reports code {(resp or {}).get('code')} for an accepted form", "input": inp})
            if residue:
                fails.append({"what": f"temporary file(s) survive the command-line call: {residue}", "input": inp})
        # the other external validator, Enketo Validate: a stand-in executable in place of the bundled one (exit code, stdout, stderr from the environment)
        import pyxform.validators.enketo_validate as ev
        fake_enketo = sb.root / "enketo-validate"
        fake_enketo.write_text('#!/bin/sh\nif [ -n "$FAKE_STDOUT" ]; then printf "%s" "$FAKE_STDOUT"; fi\nif [ -n "$FAKE_STDERR_FILE" ]; then cat "$FAKE_STDERR_FILE" >&2; fi\nexit ${FAKE_RC:-0}\n')
        fake_enketo.chmod(fake_enketo.stat().st_mode | stat.S_IEXEC)
        saved_ev = (ev.ENKETO_VALIDATE_PATH, ev._call_validator.__defaults__)
        ev.ENKETO_VALIDATE_PATH = str(fake_enketo)
        ev._call_validator.__defaults__ = (str(fake_enketo),)
        try:
            for i in range(20 if tier == "quick" else 200):
                rc = rng.choice([0, 0, 1, 2])
                err = rng.choice(["", "Error in /data/q1: bad\n", "/data/g/q-1 is wrong\nsecond line\n", "warning only\n"])
                out_txt = rng.choice(["", "a warning about the form\n"])
                sb.set(True, rc, err)
                os.environ["FAKE_STDOUT"] = out_txt
                n += 1
                keys.add(("enketo", rc, err, out_txt))
                inp = {"validator": "enketo", "rc": rc, "stderr": err, "stdout": out_txt}
                via_cli = rng.random() < 0.5
                if not via_cli:
                    try:
                        r = convert(MD_OK, validate=False, enketo=True)
                        got, msg = "ok", ""
                    except ev.EnketoValidateError as e:
                        got, msg = "EnketoValidateError", str(e)
                    except Exception as e:   # noqa: BLE001
                        got, msg = repr(e), ""
                    want = "EnketoValidateError" if rc > 0 else "ok"
                    if got != want:
                        fails.append({"what": f"library outcome with Enketo Validate: {got}, documented {want}", "input": inp})
                    elif got == "ok" and out_txt and not any(out_txt.strip() in w for w in r.warnings):
                        fails.append({"what": "Enketo's output is not surfaced as a warning", "input": inp, "observed": r.warnings})
                    elif got != "ok" and "/data/q1" in err and "${q1}" not in msg:
                        fails.append({"what": "Enketo rejection: instance path not shown as ${name}", "input": inp, "observed": msg})
                else:
                    js = rng.random() < 0.5
                    pre = rng.random() < 0.5
                    resp, logged, uncaught, out_state, residue_cli, _ = run_cli(sb, MD_OK, ["--enketo_validate"] + (["--json"] if js else []), pre)
                    inp.update({"cli": True, "json": js, "pre_existing_output": pre})
                    if rc > 0:
                        if out_state is not None and not (js and out_state == "old"):
                            fails.append({"what": f"the command-line tool ({'--json' if js else 'plain'}) left {'the earlier file' if out_state == 'old' else 'an XForm'} at the output path although Enketo rejected the form", "input": inp})
                        if js and (resp or {}).get("code") != 999:
                            fails.append({"what": f"--json reports code {(resp or {}).get('code')} instead of 999 for a form Enketo rejected", "input": inp})
                        if not js and (uncaught or not logged):
                            fails.append({"what": "plain mode: an Enketo rejection is not reported as a logged error" + (" (the tool ended with an uncaught exception)" if uncaught else ""), "input": inp})
                    else:
                        if out_state != libs["ok"].xform:
                            fails.append({"what": "Enketo accepted: the file written by the command-line tool differs from the library result", "input": inp, "observed": (out_state or "")[:300]})
                        if js and (resp or {}).get("code") not in (100, 101):
                            fails.append({"what": f"--json reports code {(resp or {}).get('code')} for a form Enketo accepted", "input": inp})
                residue = sorted(p.name for p in sb.tmp.iterdir())
                if residue:
                    fails.append({"what": f"temporary file(s) survive the call with Enketo Validate: {residue}", "input": inp})
                    for p in sb.tmp.iterdir():
                        p.unlink()
        finally:
            ev.ENKETO_VALIDATE_PATH, ev._call_validator.__defaults__ = saved_ev
            os.environ.pop("FAKE_STDOUT", None)
        ov._call_validator = lambda path_to_xform, bin_file_path=None: run_popen_with_timeout(["java", "-jar", "x", path_to_xform], 1)
        try:
            sb.set(True, 0, "", sleep="3")
            n += 1
            r = convert(MD_OK, validate=True)
            if r.warnings != ["XForm took to long to completely validate."]:
                fails.append({"what": f"timeout outcome: warnings {r.warnings}", "input": {"timeout": True}})
            if list(sb.tmp.iterdir()):
                fails.append({"what": "temporary file survives the timeout path", "input": {"timeout": True}})
        finally:
            ov._call_validator = orig
    finally:
        sb.close()
    return {
        "evaluations": n, "distinct_nontrivial": len(keys),
        "rule": "convert(validate=True) under a stand-in java (exit codes 0,1,2,3,143,255, self-kill, absent, sleeping past a 1 s watchdog) x stderr "
                "payloads x valid/invalid forms; outcome class, surfaced warnings, cleaned error text and the private TMPDIR listing are checked "
                "against the documented table; the command-line tool (plain and --json, output file present before or not) is judged on the output path, the reported failure, "
                "equality with the library result and the TMPDIR listing; the same outcomes with a stand-in Enketo Validate (library enketo=True and --enketo_validate); "
                "distinct by (java, rc, kill, stderr, form)",
        "failures": [dict(f, reproduce="cd /verif && /venv/bin/python harness/check.py C18") for f in fails],
        "samples": [{"java": True, "rc": 2, "stderr": STDERRS[2]}],
    }


def replay_finding(slug):
    return None


def replay(path: Path) -> int:
    print(Path(path).read_text()[:2000])
    return 1
