"""C19 — entity declarations follow the documented create/update decision table."""

from __future__ import annotations

import copy
import itertools
import json
import re
from pathlib import Path

from common import cstr, clist, cbool, rng_for
from opbase import Op, pmap
import forms
import xf

PID = "C19"
GUARD = "none: the 16 presence combinations are exhaustive; expressions are arbitrary (only their presence matters)"
MODELLED = ("get_entity_declaration, EntityDeclaration.xml_instance/xml_bindings are TRANSLATED into coq/Gen/Entities.v on every run; "
            "dataset / save_to name validation is hand-modelled over the is_xml_tag model; save_to placement (in_repeat over the "
            "begin/end stack), namespace/version declaration and reference substitution are decided on the implementation by the oracle")
ASSUMPTIONS = ["truthiness of a cell = non-empty string (cells are str or absent at this stage)"]

ENT_NS = "http://www.opendatakit.org/xforms/entities"
EXPRS = {"entity_id": ["${q1}", "coalesce(${q1}, uuid())"], "create_if": ["${q1} = 'a'", "true()"], "update_if": ["${q1} != ''", "false()"],
         "label": ["concat(${q1}, ' x')", "'L'"]}


class DecisionOp(Op):
    """translated decision functions against the Python ones, all 16 combinations x expression variants"""
    name = "B.entity_declaration"
    imports = ["PX.Gen.Entities"]
    fn = ("fun p => let '(e, c, u, l) := p in "
          "(match entity_reject e c u l with Some n => 82%N :: dec (N.of_nat n) | None => "
          "join [44%N] (map (fun a => fst a ++ [61%N] ++ snd a) (entity_attrs e c u l)) ++ [124%N] ++ (if entity_has_label_child e c u l then [49%N] else [48%N]) ++ [124%N] ++ "
          "join [44%N] (map (fun b => fst (fst b) ++ [58%N] ++ snd (fst b)) (entity_binds e c u l)) end)")
    in_ty = "(bool * bool * bool * bool)"
    n_quick, n_thorough = 64, 64

    def generate(self, rng, n):
        from pyxform.entities.entities_parsing import get_entity_declaration
        from pyxform.entities.entity_declaration import EntityDeclaration
        from pyxform.builder import create_survey_element_from_dict
        from pyxform.errors import PyXFormError
        import pyxform.entities.entities_parsing as ep
        msgs = None
        cases = []
        for combo in itertools.product([False, True], repeat=4):
            for variant in range(4):
                e, c, u, l = combo
                row = {"dataset": "trees"}
                for flag, key in zip(combo, ("entity_id", "create_if", "update_if", "label")):
                    if flag:
                        row[key] = EXPRS[key][variant % 2] if variant < 2 else rng.choice(EXPRS[key])
                    elif variant == 3:
                        row[key] = ""    # an empty cell is as absent as a missing one
                try:
                    decl = get_entity_declaration([dict(row)])
                    sv = create_survey_element_from_dict({"type": "survey", "name": "data", "id_string": "x", "title": "x", "children": [
                        {"type": "text", "name": "q1", "label": "a"},
                        {"type": "group", "name": "meta", "control": {"bodyless": True}, "children": [decl]}]})
                    sv._setup_xpath_dictionary()
                    ent = sv.children[1].children[0]
                    inst = ent.xml_instance()
                    attrs = ",".join(f"{k}={'<dataset>' if k == 'dataset' else v}" for k, v in inst.attributes.items())
                    has_label = "1" if any(ch.nodeName == "label" for ch in inst.childNodes) else "0"
                    binds = []
                    for b in ent.xml_bindings(sv):
                        ns = b.getAttribute("nodeset") or b.getAttribute("ref")
                        dest = ns[len("/data/meta/entity"):]
                        kind = "setvalue" if b.nodeName == "setvalue" else ("idbind" if dest == "/@id" else "bind")
                        binds.append(f"{kind}:{dest}")
                    exp = f"{attrs}|{has_label}|{','.join(binds)}"
                except PyXFormError as ex:
                    src = [m for m in ("entity_id column which is required when updating", "can't specify an entity creation condition and an entity_id",
                                       "missing the label column which is required when creating")]
                    idx = [i for i, m in enumerate(src) if m in str(ex)]
                    exp = "R" + (str(idx[0] + 1) if idx else "?")
                cases.append({"coq": f"({cbool(e)}, {cbool(c)}, {cbool(u)}, {cbool(l)})", "expected": exp, "desc": {"row": row},
                              "class": "reject" if exp.startswith("R") else "accept"})
        return cases


NAMES = ["trees", "trees\n", "a\nb", "a.b", "__x", "_x", "a-b", "1a", "", "a b", "é", "na:me", "name", "Name", "LABEL", "label", "labelx", "__", "x__y", "a..", "q]", "µ", "Àb", "a:b:c", "x.y"]


class DatasetCellOp(Op):
    """the dataset cell of the entities row, absent and empty included (get_validated_dataset_name on the row)"""
    name = "B.dataset_cell"
    imports = ["PX.Model.Entities"]
    fn = "fun c => match dataset_cell_check c with Some n => dec (N.of_nat n) | None => [111;107]%N end"
    in_ty = "option (list N)"
    n_quick, n_thorough = 61, 400

    def generate(self, rng, n):
        from pyxform.entities.entities_parsing import get_validated_dataset_name
        from pyxform.errors import PyXFormError
        from props.c01 import NAME_ALPHA
        cases = []
        for i in range(n):
            if i == 0:
                row, coq, s = {"label": "x"}, "None", None
            else:
                s = "" if i == 1 else (NAMES[i - 2] if i - 2 < len(NAMES) else "".join(rng.choice(NAME_ALPHA + ["_", "_", ".", "a"]) for _ in range(rng.randint(0, 4))))
                row, coq = {"dataset": s, "label": "x"}, f"(Some {cstr(s)})"
            try:
                get_validated_dataset_name(row)
                exp = "ok"
            except PyXFormError as ex:
                m = str(ex)
                exp = "0" if "missing the list_name" in m else ("1" if "reserved prefix" in m else ("2" if "periods" in m else "3"))
            except Exception as ex:   # a crash is an outcome the model does not have
                exp = "crash:" + type(ex).__name__
            cases.append({"coq": coq, "expected": exp, "desc": {"dataset": s}, "class": "cell=" + exp, "nontrivial": exp in ("0", "ok")})
        return cases


class BeginRowOp(Op):
    """which type cells the save_to check takes for the opening of a section (RE_BEGIN_CONTROL_ROW.match) against Model/SaveToRow.v"""
    name = "B.begin_row"
    imports = ["PX.Model.SaveToRow", "PX.Gen.Types"]
    fn = "fun t => if begin_row (map fst CONTROL_ALIASES) t then [49%N] else [48%N]"
    in_ty = "list N"
    n_quick, n_thorough = 300, 3000

    def generate(self, rng, n):
        from pyxform.entities.entities_parsing import RE_BEGIN_CONTROL_ROW
        from pyxform import aliases
        words = ["begin", "Begin", "end", "begin ", "begin_", "begin\t", "begin\u00a0", "beginner", "begin  "]
        ctl = list(aliases.control) + ["groups", "repeats", "loops", "group_x", "lgroups", "looped", "looped  group", "Group"]
        tails = ["", " ", " over l", " l", "\n", "\n\n", "x", "_x", " over", "  l"]
        others = ["select_one groups", "select_multiple repeat_opts", "select one group", "text", "integer", "begin", "end group", "rank loop", "select_one begin group"]
        cases = []
        for i in range(n):
            if rng.random() < 0.2:
                t = rng.choice(others)
            else:
                t = rng.choice(words) + ("" if rng.random() < 0.6 else rng.choice([" ", "_"])) + rng.choice(ctl) + rng.choice(tails)
            exp = "1" if RE_BEGIN_CONTROL_ROW.match(t) else "0"
            cases.append({"coq": cstr(t), "expected": exp, "desc": {"type": t}, "class": "section" if exp == "1" else "not a section", "nontrivial": t.startswith("begin")})
        return cases


class NamesOp(Op):
    name = "B.entity_names"
    imports = ["PX.Model.Entities"]
    fn = ("fun p => (match dataset_check p with Some n => dec (N.of_nat n) | None => [48%N] end) ++ [44%N] ++ "
          "(match saveto_name_check p with Some n => dec (N.of_nat n) | None => [48%N] end)")
    in_ty = "list N"
    n_quick, n_thorough = 150, 1500

    def generate(self, rng, n):
        from pyxform.entities.entities_parsing import get_validated_dataset_name, validate_entity_saveto
        from pyxform.errors import PyXFormError
        from props.c01 import NAME_ALPHA
        cases = []
        for i in range(n):
            s = rng.choice(NAMES) if i < len(NAMES) * 2 else "".join(rng.choice(NAME_ALPHA + ["_", "_", ".", "n", "a", "m", "e"]) for _ in range(rng.randint(1, 5)))
            if i < len(NAMES):
                s = NAMES[i]
            if not s:
                continue
            try:
                get_validated_dataset_name({"dataset": s})
                d = 0
            except PyXFormError as ex:
                m = str(ex)
                d = 1 if "reserved prefix" in m else (2 if "periods" in m else 3)
            try:
                validate_entity_saveto({"type": "text", "bind": {"entities:saveto": s}}, 2, False, {"x": 1})
                v = 0
            except PyXFormError as ex:
                m = str(ex)
                v = 1 if "is reserved" in m else (2 if "reserved prefix" in m else 3)
            cases.append({"coq": cstr(s), "expected": f"{d},{v}", "desc": {"name": s}, "class": f"dataset={d} saveto={v}"})
        return cases


def ops(tier):
    return [DecisionOp(), NamesOp(), DatasetCellOp(), BeginRowOp()]


# ---- direct oracle ---------------------------------------------------------------------------------
def spec(e, c, u, l):
    """the documented table, written independently of both the code and the Coq spec"""
    if u and not e:
        return None
    if e and c and not u:
        return None
    if not e and not l:
        return None
    creating = c or (not e and not u)
    attrs = {"dataset", "id"} | ({"update", "baseVersion", "trunkVersion", "branchId"} if e else set()) | ({"create"} if creating else set())
    binds = set()
    if c:
        binds.add(("bind", "/@create"))
    binds.add(("bind", "/@id"))
    if c or not e:
        binds.add(("setvalue", "/@id"))
    if u:
        binds.add(("bind", "/@update"))
    if e:
        binds |= {("bind", "/@baseVersion"), ("bind", "/@trunkVersion"), ("bind", "/@branchId")}
    if l:
        binds.add(("bind", "/label"))
    return attrs, binds


PLACEMENTS = ["none", "top", "in_group", "in_repeat", "in_group_in_repeat", "in_repeat_in_group", "on_group", "on_repeat", "two", "on_loop", "on_select_named_like_a_group"]


def build(combo, placement, rng, dataset="trees", save_name="prop_a", extra_col=None, rows2=False, namespaces=None, second_row=None, settings=None, audit=False):
    e, c, u, l = combo
    ent = {"dataset": dataset}
    for flag, key in zip(combo, ("entity_id", "create_if", "update_if", "label")):
        if flag:
            ent[key] = rng.choice(EXPRS[key])
    if extra_col:
        ent[extra_col] = "x"
    survey = [{"type": "text", "name": "q1", "label": "Q1"}]
    sv = {"save_to": save_name}
    if placement == "top":
        survey.append({"type": "text", "name": "q2", "label": "Q2", **sv})
    elif placement == "two":
        survey += [{"type": "text", "name": "q2", "label": "Q2", **sv}, {"type": "integer", "name": "q3", "label": "Q3", "save_to": "other_p"}]
    elif placement == "in_group":
        survey += [{"type": "begin group", "name": "g", "label": "G"}, {"type": "text", "name": "q2", "label": "Q2", **sv}, {"type": "end group"}]
    elif placement == "in_repeat":
        survey += [{"type": "begin repeat", "name": "r", "label": "R"}, {"type": "text", "name": "q2", "label": "Q2", **sv}, {"type": "end repeat"}]
    elif placement == "in_group_in_repeat":
        survey += [{"type": "begin repeat", "name": "r", "label": "R"}, {"type": "begin group", "name": "g", "label": "G"},
                   {"type": "text", "name": "q2", "label": "Q2", **sv}, {"type": "end group"}, {"type": "end repeat"}]
    elif placement == "in_repeat_in_group":
        survey += [{"type": "begin group", "name": "g", "label": "G"}, {"type": "begin repeat", "name": "r", "label": "R"},
                   {"type": "text", "name": "q2", "label": "Q2", **sv}, {"type": "end repeat"}, {"type": "end group"}]
    elif placement == "on_group":
        survey += [{"type": "begin group", "name": "g", "label": "G", **sv}, {"type": "text", "name": "q2", "label": "Q2"}, {"type": "end group"}]
    elif placement == "on_repeat":
        survey += [{"type": "begin repeat", "name": "r", "label": "R", **sv}, {"type": "text", "name": "q2", "label": "Q2"}, {"type": "end repeat"}]
    if placement == "on_loop":
        survey += [{"type": "begin loop over crops", "name": "g", "label": "G", **sv}, {"type": "text", "name": "q2", "label": "Q2"}, {"type": "end loop"}]
    elif placement == "on_select_named_like_a_group":
        # a question, not a group: its list just happens to be called groups / repeat_opts
        survey.append({"type": rng.choice(["select_one groups", "select_multiple repeat_opts", "select_one groups or_other"]), "name": "q2", "label": "Q2", **sv})
    # the rows that open and close a group or repeat, under any of their accepted spellings
    spell = {"begin group": ["begin group", "begin_group"], "end group": ["end group", "end_group"],
             "begin repeat": ["begin repeat", "begin_repeat", "begin lgroup", "begin_lgroup", "begin looped group", "begin_looped group"],
             "end repeat": ["end repeat", "end_repeat", "end lgroup", "end_lgroup", "end looped group"]}
    for row in survey:
        if row["type"] in spell:
            row["type"] = rng.choice(spell[row["type"]])
    form = {"survey": survey, "entities": [ent] + ([second_row or {"dataset": "d2", "label": "'x'"}] if rows2 else [])}
    if placement in ("on_loop", "on_select_named_like_a_group"):
        form["choices"] = [{"list_name": ln, "name": n, "label": n.upper()} for ln in ("crops", "groups", "repeat_opts") for n in ("a", "b")]
    if namespaces:
        form["settings"] = [{"namespaces": namespaces}]
    if settings:
        form["settings"] = [dict(settings)]
    if audit:
        form["survey"].append({"type": "audit", "name": "audit"})
    return form


def audit(form, combo, placement, xform):
    probs = []
    root = xf.lparse(xform)
    X = xf.XF
    model = root.find(xf.H + "head").find(X + "model")
    if model.get("{%s}entities-version" % ENT_NS) is None:
        probs.append("entities-version attribute missing on the model")
    if root.nsmap.get("entities") != ENT_NS:
        probs.append("entities namespace not declared on the root")
    inst = model.find(X + "instance")
    ent = inst[0].find(X + "meta").find("{%s}entity" % ENT_NS) if inst[0].find(X + "meta") is not None else None
    if ent is None:
        ent = inst[0].find(X + "meta").find(X + "entity") if inst[0].find(X + "meta") is not None else None
    if ent is None:
        return probs + ["meta/entity missing"]
    want = spec(*combo)
    attrs, binds = want
    if set(ent.attrib) != attrs:
        probs.append(f"entity attributes {sorted(ent.attrib)} != documented {sorted(attrs)}")
    for k in ("update", "create"):
        if k in ent.attrib and ent.get(k) != "1":
            probs.append(f"@{k} = {ent.get(k)!r}")
    if ent.get("dataset") != form["entities"][0]["dataset"]:
        probs.append("dataset attribute is not the dataset cell")
    has_label = any(ch.tag.endswith("}label") or ch.tag == "label" for ch in ent)
    if has_label != combo[3]:
        probs.append(f"label child present={has_label}, label cell present={combo[3]}")
    got = set()
    base = "/data/meta/entity"
    for b in model.iter(X + "bind"):
        ns = b.get("nodeset", "")
        if ns.startswith(base):
            got.add(("bind", ns[len(base):]))
            if "${" in (b.get("calculate") or ""):
                probs.append("unsubstituted reference in an entity bind")
            if ns.endswith("/@id"):
                if combo[0] and not b.get("calculate"):
                    probs.append("@id is not calculated from entity_id when updating")
                if not combo[0] and b.get("calculate"):
                    probs.append("@id is calculated although no entity_id was given")
    for a in model.iter(X + "setvalue"):
        if (a.get("ref") or "").startswith(base):
            got.add(("setvalue", a.get("ref")[len(base):]))
            if a.get("value") != "uuid()" or a.get("event") != "odk-instance-first-load":
                probs.append("id setvalue is not uuid() on odk-instance-first-load")
    if got != binds:
        probs.append(f"entity binds {sorted(got)} != documented {sorted(binds)}")
    # save_to
    saves = {r["name"]: r["save_to"] for r in form["survey"] if r.get("save_to")}
    for b in model.iter(X + "bind"):
        sv = b.get("{%s}saveto" % ENT_NS)
        name = b.get("nodeset", "").split("/")[-1]
        if sv is not None and saves.get(name) != sv:
            probs.append(f"saveto {sv!r} on the bind of {name}, which has save_to {saves.get(name)!r}")
        if sv is None and name in saves:
            probs.append(f"save_to of {name} did not reach its bind")
    return probs


def _check(args):
    seed, i, combo, placement, variant = args
    rng = rng_for(seed, PID, "oracle", i)
    kw = {}
    expect_reject = spec(*combo) is None
    if placement in ("in_repeat", "in_group_in_repeat", "in_repeat_in_group", "on_group", "on_repeat", "on_loop"):
        expect_reject = True
    if variant == "bad_dataset":
        kw["dataset"] = rng.choice(["__x", "a.b", "1a", "a b"])
        expect_reject = True
    elif variant == "bad_saveto" and placement != "none":
        kw["save_name"] = rng.choice(["name", "Label", "__p", "1x", "a b", "NAME"])
        expect_reject = True
    elif variant == "extra_col":
        kw["extra_col"] = rng.choice(["what", "name", "type", "parameters", "Name", "label::en", "entity_id::x", "create_if::fr", "x::y"])
        expect_reject = True
    elif variant == "two_rows":
        kw["rows2"] = True
        # the second row need not name a dataset to be a second row
        kw["second_row"] = rng.choice([None, {"label": "'x'", "create_if": "true()"}, {"label": "'y'"}, {"entity_id": "${q1}"}])
        expect_reject = True
    elif variant == "namespaces":
        kw["namespaces"] = 'esri="http://esri.com/x"'
    elif variant == "meta_settings":
        # what else sits in (or is kept out of) the meta block must not matter to the declaration
        kw["settings"] = rng.choice([{"omit_instanceID": "yes"}, {"instance_name": "concat('a', 'b')"}, {"omit_instanceID": "yes", "instance_name": "'n'"},
                                     {"instance_id": "uid"}, {"omit_instanceID": "true"}])
        kw["audit"] = rng.random() < 0.3
    elif variant == "good_names":
        kw["dataset"] = rng.choice(["trees", "_d", "a-b", "é1"])
        kw["save_name"] = rng.choice(["p", "Names", "labels", "_q", "x-y.z"])
    form = build(combo, placement, rng, **kw)
    # the save_to column under any of its accepted headers (the audit reads the canonical key)
    spelled = rng.choice(["save_to", "save_to", "Save_To", "save to", "bind::entities:saveto", "SAVE_TO", " save_to "])
    conv = copy.deepcopy(form)
    for row in conv["survey"]:
        if "save_to" in row and spelled != "save_to":
            items = [((spelled if k == "save_to" else k), v) for k, v in row.items()]
            row.clear()
            row.update(items)
    st, r = xf.convert_form(forms.as_dict(conv))
    if st == "crash":
        return {"i": i, "skip": "crash (C17)"}
    if expect_reject:
        if st == "ok":
            return {"i": i, "form": form, "what": f"accepted although the documented table rejects it (combo id,create,update,label={combo}, save_to {placement} under the header {spelled!r}, {variant})", "conv": conv}
        return {"i": i, "ok": True, "rejected": True, "key": (combo, placement, variant)}
    if st != "ok":
        return {"i": i, "form": form, "what": f"rejected ({str(r)[:150]}) although the documented table accepts it (combo={combo}, save_to {placement}, {variant})"}
    try:
        probs = audit(form, combo, placement, r.xform)
    except Exception as e:
        probs = [f"output could not be audited: {e!r}"]
    if probs:
        return {"i": i, "form": form, "what": "; ".join(probs)[:800], "xform": r.xform[:2500]}
    return {"i": i, "ok": True, "rejected": False, "key": (combo, placement, variant)}


def oracle(seed, tier, searching=False):
    combos = list(itertools.product([False, True], repeat=4))
    variants = ["plain", "good_names", "bad_dataset", "bad_saveto", "extra_col", "two_rows", "namespaces", "meta_settings", "meta_settings"]
    jobs = []
    i = 0
    for combo in combos:
        for pl in PLACEMENTS:
            for v in (variants if tier == "thorough" or pl in ("none", "top", "in_group", "in_group_in_repeat") else ["plain"]):
                jobs.append((seed, i, combo, pl, v))
                i += 1
    res = pmap(_check, jobs)
    fails = [r for r in res if "what" in r]
    oks = [r for r in res if r.get("ok")]
    # a form without an entities sheet must not mention the entities namespace, and save_to then is an error
    st, r = xf.convert_form(forms.as_dict({"survey": [{"type": "text", "name": "q", "label": "Q"}]}))
    if st == "ok" and ("entities" in r.xform):
        fails.append({"i": -1, "form": {}, "what": "entities namespace/version present without an entity declaration"})
    st, r = xf.convert_form(forms.as_dict({"survey": [{"type": "text", "name": "q", "label": "Q", "save_to": "p"}]}))
    if st == "ok":
        fails.append({"i": -2, "form": {}, "what": "save_to accepted without an entities sheet"})
    # ... on whatever kind of row the cell sits (an audit row leaves the row loop early: defect F51, fixed)
    for ty, extra in (("audit", {"name": "audit"}), ("calculate", {"name": "c", "calculation": "1"}), ("note", {"name": "n", "label": "N"}), ("start", {"name": "s"}),
                      ("select_one l", {"name": "so", "label": "S"}), ("hidden", {"name": "h"})):
        f2 = {"survey": [{"type": "text", "name": "q", "label": "Q"}, {"type": ty, **extra, "save_to": "p"}], "choices": [{"list_name": "l", "name": "a", "label": "A"}]}
        st, r = xf.convert_form(forms.as_dict(f2))
        if st == "ok":
            fails.append({"i": -3, "form": f2, "what": f"save_to on a row of type {ty} accepted without an entities sheet"})
    return {
        "evaluations": len(res) + 8,
        "distinct_nontrivial": len({r["key"] for r in oks}),
        "exhaustive": True,
        "rule": "all 16 presence combinations of (entity_id, create_if, update_if, label) x 9 placements of save_to x name/column/row variants; "
                "meta/entity attributes, binds, setvalue, namespace, version and saveto audited on the real XForm against an independent "
                "transcription of the documented table; distinct by (combination, placement, variant)",
        "accepted": sum(1 for r in oks if not r["rejected"]), "rejected_as_documented": sum(1 for r in oks if r["rejected"]),
        "failures": [{"input": {"form": f.get("conv") or f["form"], "case": f["i"], "expect": "reject" if "accepted although" in f["what"] else "accept"}, "what": f["what"], "observed": f.get("xform"),
                      "reproduce": "cd /verif && /venv/bin/python harness/check.py C19"} for f in fails],
        "samples": [{"combo": list(r["key"][0]), "save_to": r["key"][1], "variant": r["key"][2], "rejected": r["rejected"]} for r in oks[:4]],
    }


def replay_finding(slug):
    return None


def replay(path: Path) -> int:
    payload = json.loads(Path(path).read_text())
    st, r = xf.convert_form(forms.as_dict(payload["input"]["form"]))
    print(st, str(r)[:200] if st != "ok" else "")
    expect = payload["input"].get("expect")
    if (expect == "reject" and st == "ok") or (expect == "accept" and st != "ok") or expect is None:
        print(f"VIOLATION property={PID} replay={path}")
        return 1
    print("the documented table is followed for this input on this tree")
    return 0
