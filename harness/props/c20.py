"""C20 — advisory warnings fire exactly when their trigger is present."""

from __future__ import annotations

import copy
import json
import re
from pathlib import Path

from common import cstr, clist, rng_for
from opbase import Op, pmap
import forms
import xf

PID = "C20"
GUARD = "lower = ASCII case folding in the evaluated instance (theorems hold for any lower); language labels are newline-free"
MODELLED = ("levenshtein_distance, find_sheet_misspellings, get_languages_with_bad_tags, Translations/SheetTranslations "
            "(coq/Model/{Lev,Warnings}.v). Row-level triggers (max-pixels, deprecated types, unlabeled group/repeat/choice, "
            "disabled column, duplicate id headers) and `warnings are advisory` are decided on the implementation by the "
            "independent trigger oracle (testing), not by a theorem")
ASSUMPTIONS = ["edit distance is stated over prefixes (reversed strings); reversal symmetry of the recurrence is not proved"]

SHEETS = ["survey", "choices", "settings", "external_choices", "entities", "osm"]
NAME_ALPHA = "abcdefghijklmnopqrstuvwxyzABCDEFGHIJKLMNOPQRSTUVWXYZ_ 0123456789-日本"


def mutate_name(rng, s, k):
    s = list(s)
    for _ in range(k):
        r = rng.random()
        pos = rng.randrange(len(s) + 1)
        if r < 0.33 and s:
            del s[min(pos, len(s) - 1)]
        elif r < 0.66:
            s.insert(pos, rng.choice(NAME_ALPHA))
        elif s:
            s[min(pos, len(s) - 1)] = rng.choice(NAME_ALPHA)
    return "".join(s)


def rand_sheet_name(rng):
    base = rng.choice(SHEETS)
    r = rng.random()
    if r < 0.15:
        return base if rng.random() < 0.7 else rng.choice([" " + base, base + "  ", " " + base.upper() + " "])
    if r < 0.25:
        return base.upper() if rng.random() < 0.5 else base.capitalize()
    name = mutate_name(rng, base, rng.choice([1, 1, 2, 2, 3, 4]))
    if rng.random() < 0.1:
        name = "_" + name
    if rng.random() < 0.15:      # spaces around the name: the readers ignore them, and so does the spelling check
        name = rng.choice([" ", "", "  "]) + name + rng.choice([" ", "  ", "\t"])
    return name


class LevOp(Op):
    name = "B.levenshtein"
    imports = ["PX.Model.Lev"]
    fn = "fun p => dec (N.of_nat (levenshtein (fst p) (snd p)))"
    in_ty = "(list N * list N)"
    n_quick, n_thorough = 600, 8000

    def generate(self, rng, n):
        from pyxform.utils import levenshtein_distance
        cases = []
        for i in range(n):
            if rng.random() < 0.6:
                a, b = rand_sheet_name(rng).lower(), rng.choice(SHEETS)
            else:
                a = "".join(rng.choice("abcab é") for _ in range(rng.randint(0, 9)))
                b = mutate_name(rng, a, rng.randint(0, 4)) if rng.random() < 0.7 else "".join(rng.choice("abc") for _ in range(rng.randint(0, 9)))
            d = levenshtein_distance(a, b)
            cases.append({"coq": f"({cstr(a)}, {cstr(b)})", "expected": str(d), "desc": {"a": a, "b": b}, "class": f"d={min(d, 4)}",
                          "nontrivial": d > 0})
        return cases


class MisspellOp(Op):
    name = "B.sheet_misspellings"
    imports = ["PX.Model.Warnings", "PX.Gen.Warn"]
    fn = ("fun p => match find_sheet_misspellings SUPPORTED_SHEET_NAMES (fst p) (snd p) with Some m => m | None => [78;79;78;69]%N end")
    in_ty = "(list N * list (list N))"
    n_quick, n_thorough = 300, 4000

    def generate(self, rng, n):
        from pyxform.validators.pyxform.sheet_misspellings import find_sheet_misspellings
        cases = []
        for i in range(n):
            key = rng.choice(SHEETS)
            keys = [rand_sheet_name(rng) for _ in range(rng.randint(0, 5))]
            # ASCII case folding only in the evaluated instance: drop names whose lower() is not ASCII-only folding
            keys = [k for k in keys if k.lower() == "".join(chr(ord(c) + 32) if "A" <= c <= "Z" else c for c in k)]
            m = find_sheet_misspellings(key=key, keys=keys)
            cases.append({"coq": f"({cstr(key)}, {clist([cstr(k) for k in keys], '(list N)')})", "expected": m if m is not None else "NONE",
                          "desc": {"key": key, "keys": keys}, "class": "warn" if m else "silent", "nontrivial": bool(keys)})
        return cases


LANGS = ["English (en)", "French (fr)", "French", "fr", "en", "es", "Deutsch (de)", "xx (zz)", "Kl (tlh)", "a()", "()", "ab",
         "default", "Ελληνικά (el)", "English (EN)", "(en)", "French (fr) ", "x (fr)(en)", "中文 (zh)", "Latin (la", "(en) x", "eng", "abc (abcdefghi)"]


class IanaOp(Op):
    name = "B.bad_language_tags"
    imports = ["PX.Model.Warnings", "PX.Gen.Warn"]
    fn = "fun l => join [0%N] (languages_with_bad_tags IANA_TAGS_2 IANA_TAGS_3 l)"
    in_ty = "list (list N)"
    n_quick, n_thorough = 200, 3000

    def generate(self, rng, n):
        from pyxform.validators.pyxform.iana_subtags.validation import get_languages_with_bad_tags
        cases = []
        for i in range(n):
            langs = []
            for _ in range(rng.randint(0, 4)):
                l = rng.choice(LANGS)
                if rng.random() < 0.3:
                    l = mutate_name(rng, l, 1).replace("\n", "")
                langs.append(l)
            bad = get_languages_with_bad_tags(langs)
            cases.append({"coq": clist([cstr(l) for l in langs], "(list N)"), "expected": "\x00".join(bad), "desc": {"languages": langs},
                          "class": f"bad={min(len(bad), 3)}", "nontrivial": bool(langs)})
        return cases


S_COLS = ["label", "hint", "guidance_hint", "image", "audio", "jr:constraintMsg", "jr:requiredMsg", "video", "big-image", "name", "type", "relevant"]
C_COLS = ["label", "image", "audio", "video", "big-image", "name", "list_name", "cf"]


def rand_headers(rng, cols):
    hs = []
    langs = rng.sample(["en", "fr", "English (en)", "default", "es"], rng.randint(0, 3))
    for _ in range(rng.randint(0, 7)):
        c = rng.choice(cols)
        r = rng.random()
        if r < 0.35:
            h = (c,)
        elif r < 0.9 and langs:
            h = (c, rng.choice(langs))
        else:
            h = (c, rng.choice(langs or ["en"]), "x")
        if c in ("image", "audio", "video", "big-image"):
            h = ("media", *h)
        elif c.startswith("jr:"):
            h = ("bind", *h)
        if h not in hs:
            hs.append(h)
    return tuple(hs)


class MissingOp(Op):
    name = "B.missing_translations"
    imports = ["PX.Model.Warnings", "PX.Gen.Warn"]
    fn = ("fun p => (match missing_check TRANSLATABLE_SURVEY_COLUMNS TRANSLATABLE_CHOICES_COLUMNS (fst p) (snd p) with Some m => m | None => [78;79;78;69]%N end) "
          "++ [0%N] ++ (if or_other_warns TRANSLATABLE_SURVEY_COLUMNS TRANSLATABLE_CHOICES_COLUMNS (fst p) (snd p) true then [49%N] else [48%N])")
    in_ty = "(list (list (list N)) * list (list (list N)))"
    n_quick, n_thorough = 400, 5000

    def generate(self, rng, n):
        from pyxform.validators.pyxform.translations_checks import SheetTranslations
        cases = []
        for i in range(n):
            s, c = rand_headers(rng, S_COLS), rand_headers(rng, C_COLS)
            st = SheetTranslations(survey_sheet=s, choices_sheet=c)
            w = st.missing_check([])
            st.or_other_seen = True
            oo = st.or_other_check([])
            enc = lambda hs: clist([clist([cstr(t) for t in h], "(list N)") for h in hs], "(list (list N))")
            cases.append({"coq": f"({enc(s)}, {enc(c)})", "expected": (w[0] if w else "NONE") + "\x00" + ("1" if oo else "0"),
                          "desc": {"survey_headers": s, "choices_headers": c}, "class": "warn" if w else "silent", "nontrivial": bool(s or c)})
        return cases


def ops(tier):
    return [LevOp(), MisspellOp(), IanaOp(), MissingOp()]


# ---- direct oracle: independent evaluation of every trigger on the workbook --------------------------
def full_matrix_distance(a, b):
    m, n = len(a), len(b)
    d = [[0] * (n + 1) for _ in range(m + 1)]
    for i in range(m + 1):
        d[i][0] = i
    for j in range(n + 1):
        d[0][j] = j
    for i in range(1, m + 1):
        for j in range(1, n + 1):
            d[i][j] = min(d[i - 1][j] + 1, d[i][j - 1] + 1, d[i - 1][j - 1] + (a[i - 1] != b[j - 1]))
    return d[m][n]


_TAGS = None


def iana_tags():
    global _TAGS
    if _TAGS is None:
        from common import REPO
        base = REPO / "pyxform/validators/pyxform/iana_subtags"
        _TAGS = set()
        for f in base.glob("iana_subtags_*.txt"):
            _TAGS |= {l.strip() for l in f.read_text(encoding="utf-8").splitlines()}
    return _TAGS


TRANSLATABLE = {"survey": {"label": "label", "hint": "hint", "guidance_hint": "guidance_hint", "constraint_message": "constraint_message",
                           "required_message": "required_message", "image": "image", "audio": "audio", "video": "video", "big-image": "big-image"},
                "choices": {"label": "label", "image": "image", "audio": "audio", "video": "video", "big-image": "big-image"}}


def split_header(h, delim):
    parts = [p.strip() for p in h.split(delim)]
    if parts[0].lower() == "media" and len(parts) > 1:
        parts = parts[1:]
    return parts


def expected_missing(form, delim):
    out = set()
    for sheet in ("survey", "choices"):
        rows = form.get(sheet) or []
        seen, cols = {}, set()
        for h in forms.headers_of(rows):
            parts = split_header(h, delim)
            base = "_".join(parts[0].split()).lower()
            if base not in TRANSLATABLE[sheet] or len(parts) > 2:
                continue
            lang = parts[1] if len(parts) == 2 else "default"
            seen.setdefault(lang, set()).add(TRANSLATABLE[sheet][base])
            cols.add(TRANSLATABLE[sheet][base])
        if not seen or set(seen) == {"default"}:
            continue
        for lang, cs in seen.items():
            for c in cols - cs:
                out.add(("missing", sheet, lang, c))
    return out


def expected_warnings(form, delim, xform):
    exp = set(expected_missing(form, delim))
    names = [s for s in form if not s.startswith("__")]
    for key in ("settings", "entities"):
        if not form.get(key):
            cands = tuple(k for k in names if full_matrix_distance(k.strip().lower(), key) <= 2 and k.strip().lower() not in SHEETS and not k.startswith("_"))
            if cands:
                exp.add(("misspell", key, cands))
    # IANA: languages of the output's translations
    root = xf.lparse(xform)
    langs = [t.get("lang") for t in root.iter(xf.XF + "translation")]
    bad = []
    for l in langs:
        if l == "default" or len(l) < 3:
            continue
        m = re.search(r"\((.*)\)$", l)
        if not m or m.group(1) not in iana_tags():
            bad.append(l)
    if bad:
        exp.add(("iana", tuple(sorted(bad))))
    or_other = False
    for i, row in enumerate(form.get("survey", []), start=2):
        t = " ".join(row.get("type", "").split())
        if "disabled" in row:
            exp.add(("disabled", i))
            if row["disabled"].strip() in ("yes", "Yes", "YES", "true", "True", "TRUE", "true()"):
                continue
        tl = t.lower()
        if tl in ("image", "photo") and "max-pixels" not in row.get("parameters", ""):
            exp.add(("maxpixels", i))
        if tl in ("subscriberid", "simserial", "subscriber id", "get subscriber id", "sim id", "get sim id"):      # every spelling of the two deprecated preloads
            exp.add(("deprecated", i, tl))
        if t.endswith(" or_other"):
            or_other = True
        m = re.match(r"^begin[ _](group|repeat)$", tl)
        if m:
            has_label = any(split_header(h, delim)[0].lower() in ("label", "image", "audio", "video", "big-image", "caption") or h.lower().startswith("media")
                            for h in row)
            if not has_label and not row.get("calculation") and not (m.group(1) == "group" and row.get("appearance") == "field-list"):
                exp.add(("nolabel", i, m.group(1).capitalize()))
    used_lists = set()
    for row in form.get("survey", []):
        parts = row.get("type", "").split()
        if len(parts) >= 2 and "select" in parts[0].lower() or (parts and parts[0] == "rank"):
            used_lists.add([p for p in parts if p != "or_other"][-1])
    for i, row in enumerate(form.get("choices", []), start=2):
        if not any(split_header(h, delim)[0].lower() in ("label", "caption") for h in row) and row.get("name"):
            exp.add(("choice_nolabel", i))
    if or_other:
        # or_other + translations: any non-default language seen on either sheet
        trans = False
        for sheet in ("survey", "choices"):
            for h in forms.headers_of(form.get(sheet) or []):
                parts = split_header(h, delim)
                base = "_".join(parts[0].split()).lower()
                if base in TRANSLATABLE[sheet] and len(parts) == 2 and parts[1] != "default":
                    trans = True
        if trans:
            exp.add(("or_other",))
    s = (form.get("settings") or [{}])[0]
    if "form_id" in s and "id_string" in s:
        exp.add(("dup_id",))
    return exp


def parse_warnings(ws):
    got, other = set(), []
    for w in ws:
        if w.startswith("Language '") or "\nLanguage '" in w:
            for line in w.split("\n"):
                m = re.match(r"^Language '(.*)' is missing the (survey|choices) (?:(\S+) column|columns (.*))\.$", line)
                if not m:
                    other.append(line)
                    continue
                cols = [m.group(3)] if m.group(3) else m.group(4).split(", ")
                for c in cols:
                    got.add(("missing", m.group(2), m.group(1), c))
            continue
        m = re.match(r"^When looking for a sheet named '(\w+)', the following sheets with similar names were found: (.*)\. If you do not", w, re.S)
        if m:
            got.add(("misspell", m.group(1), tuple(x[1:-1] for x in m.group(2).split(", "))))
            continue
        m = re.match(r"^The following language declarations do not contain valid machine-readable codes: (.*)\. Learn more", w, re.S)
        if m:
            got.add(("iana", tuple(sorted(m.group(1).split(", ")))))
            continue
        m = re.match(r"^\[row : (\d+)\] (.*)$", w, re.S)
        if m:
            row, rest = int(m.group(1)), m.group(2)
            if rest.startswith("Use the max-pixels"):
                got.add(("maxpixels", row)); continue
            mm = re.match(r"^([\w ]+?) is no longer supported", rest)
            if mm:
                got.add(("deprecated", row, mm.group(1))); continue
            mm = re.match(r"^(Group|Repeat) has no label", rest)
            if mm:
                got.add(("nolabel", row, mm.group(1))); continue
            if rest.startswith("On the 'choices' sheet, the 'label' value is invalid"):
                got.add(("choice_nolabel", row)); continue
            if rest.startswith("The 'disabled' column"):
                got.add(("disabled", row)); continue
        if w.startswith("This form uses or_other and translations"):
            got.add(("or_other",)); continue
        if w.startswith("The form_id and id_string column headers are both"):
            got.add(("dup_id",)); continue
        other.append(w)
    return got, other


def gen_warning_form(rng):
    prof = forms.Profile(adversarial=0.1, max_rows=rng.choice([3, 5, 8]), p_ref_in_label=0.05, p_or_other=0.3, or_other_with_langs=True,
                         types=["text", "integer", "image", "image", "note", "date", "calculate", "subscriberid", "simserial", "deviceid", "geopoint", "sim id", "get subscriber id", "subscriber id", "get sim id", "phonenumber"])
    g = forms.FormGen(rng, prof)
    g.delim = "::"
    if rng.random() < 0.3:   # a form whose only translatable columns name exactly one explicit language
        g.langs = [rng.choice(["French (fr)", "eng", "es", "Deutsch"])]
    form = g.form()
    if g.langs and len(g.langs) == 1 and rng.random() < 0.7:
        for rows in (form["survey"], form.get("choices", [])):
            for row in rows:
                for k in [k for k in row if "::" not in k and k.split("::")[0] in ("label", "hint", "guidance_hint", "constraint_message", "required_message")]:
                    row[k + "::" + g.langs[0]] = row.pop(k)
    survey = form["survey"]
    # unlabeled groups/repeats and choices
    for row in survey:
        if row["type"].startswith("begin") and rng.random() < 0.35:
            for k in [k for k in row if k.startswith(("label", "media"))]:
                del row[k]
    for row in form.get("choices", []):
        if rng.random() < 0.1:
            for k in [k for k in row if k.startswith("label")]:
                del row[k]
    if form.get("choices") and rng.random() < 0.2:
        # duplicate choice names are legal with allow_choice_duplicates; the later duplicate may lack a label
        form.setdefault("settings", [{}])[0]["allow_choice_duplicates"] = "yes"
        src = rng.choice(form["choices"])
        dup = {"list_name": src["list_name"], "name": src["name"]}
        if rng.random() < 0.5:
            dup.update({k: v for k, v in src.items() if k.startswith("label")})
        form["choices"].insert(form["choices"].index(src) + 1 + rng.randrange(2), dup)
    # image questions with parameters: the advisory depends on max-pixels alone, whatever else the cell holds
    for row in survey:
        if row["type"] in ("image", "photo") and rng.random() < 0.6:
            row["parameters"] = rng.choice(["app=com.example.cam", "max-pixels=640", "max-pixels=1024 app=org.x.y", "app=a.b max-pixels=300", "app=io.ionic.starter"])
    if rng.random() < 0.15:
        for row in survey:
            if rng.random() < 0.4:
                row["disabled"] = rng.choice(["no", "false", "yes"])
    # extra / misspelled sheets
    if rng.random() < 0.5:
        form.pop("settings", None)
    for _ in range(rng.choice([0, 0, 1, 2])):
        name = rand_sheet_name(rng)
        if name not in form and name.strip() and name.strip().lower() not in {k.strip().lower() for k in form} and name.strip().lower() not in SHEETS:
            form[name] = [{"a": "b"}]
    if "settings" in form and rng.random() < 0.15:
        form["settings"][0]["form_id"] = "x1"
        form["settings"][0]["id_string"] = "x2"
    return form, g.delim


def _check(args):
    seed, i = args
    rng = rng_for(seed, PID, "oracle", i)
    form, delim = gen_warning_form(rng)
    d = forms.as_dict(form)
    st, r = xf.convert_form(d)
    if st != "ok":
        return {"i": i, "skip": st}
    got, other = parse_warnings(r.warnings)
    try:
        exp = expected_warnings(form, delim, r.xform)
    except Exception as e:
        return {"i": i, "skip": "oracle-error", "err": repr(e)}
    # advisory only: the XForm must not depend on the warnings list passed in
    st2, r2 = xf.convert_form(d, warnings=["pre-existing"])
    if st2 != "ok" or r2.xform != r.xform:
        return {"i": i, "form": form, "what": "conversion result depends on the warnings list"}
    if got != exp:
        return {"i": i, "form": form, "what": f"warnings differ from triggers: unexpected {sorted(got - exp)}, absent {sorted(exp - got)}",
                "warnings": r.warnings}
    return {"i": i, "ok": True, "n": len(got), "key": hash(json.dumps(sorted(map(str, got)))), "kinds": sorted({g[0] for g in got})}


def oracle(seed, tier, searching=False):
    n = 800 if tier == "quick" else 12000
    if searching:
        n *= 3
    res = pmap(_check, [(seed, i) for i in range(n)])
    fails = [r for r in res if "what" in r]
    errs = [r for r in res if r.get("skip") == "oracle-error"]
    if errs:
        raise RuntimeError(f"trigger oracle failed on {len(errs)} cases: {errs[0].get('err')}")
    oks = [r for r in res if r.get("ok")]
    kinds = {}
    for r in oks:
        for k in r["kinds"]:
            kinds[k] = kinds.get(k, 0) + 1
    return {
        "evaluations": len(res),
        "distinct_nontrivial": len({r["key"] for r in oks if r["n"] > 0}),
        "rule": "generated workbooks with warning triggers planted at random sites; the multiset of emitted warnings (kind, subject, row) "
                "must equal an independent evaluation of every trigger on the workbook; non-trivial = at least one warning, distinct by warning set",
        "accepted": len(oks), "warning_kinds_seen": kinds,
        "skipped": {k: sum(1 for r in res if r.get("skip") == k) for k in {r["skip"] for r in res if "skip" in r}},
        "failures": [{"input": {"form": f["form"], "case": f["i"]}, "what": f["what"], "observed": f.get("warnings"),
                      "reproduce": "cd /verif && /venv/bin/python harness/check.py C20 --replay <this file>"} for f in fails],
        "samples": [{"oracle_case": r["i"], "warning_kinds": r["kinds"]} for r in oks[:3]],
    }


def replay_finding(slug):
    return None


def replay(path: Path) -> int:
    payload = json.loads(Path(path).read_text())
    form = payload["input"]["form"]
    st, r = xf.convert_form(forms.as_dict(form))
    if st != "ok":
        print("replay: form no longer converts:", r)
        return 1
    got, _ = parse_warnings(r.warnings)
    exp = expected_warnings(form, "::", r.xform)
    if got != exp:
        print(f"unexpected {sorted(got - exp)}, absent {sorted(exp - got)}")
        print(f"VIOLATION property={PID} replay={path}")
        return 1
    print("replay: property holds on this input now")
    return 0
