"""Independent evaluation of substituted ${name} references on real convert() output (C03 direct oracle)."""

from __future__ import annotations

import re

import xf

PATH_RE = re.compile(r"(instance\('__last-saved'\))?(current\(\)/)?((?:\.\./)*\.\.(?:/[^\s\]\[,()=]+)?|/[^\s\]\[,()=]+)")


def tree_rows(tree, cells_for):
    """survey rows for a treegen tree; cells_for(name, kind) -> extra cells for that row"""
    rows = []

    def go(t):
        if t[0] == "Q":
            _, name, has_bind, has_control = t
            if has_bind and has_control:
                row = {"type": "text", "name": name, "label": "L"}
            elif has_bind:
                row = {"type": "calculate", "name": name, "calculation": "1"}
            else:
                row = {"type": "note", "name": name, "label": "N"}
            row.update(cells_for(name, "Q"))
            rows.append(row)
            return
        kind = "group" if t[0] == "G" else "repeat"
        name, kids = (t[1], t[4]) if t[0] == "G" else (t[1], t[3])
        row = {"type": f"begin {kind}", "name": name, "label": kind[0].upper()}
        row.update(cells_for(name, kind))
        rows.append(row)
        for k in kids:
            go(k)
        rows.append({"type": f"end {kind}"})
    for k in tree[4]:
        if k[0] == "G" and k[1] == "meta":
            continue
        go(k)
    return rows


def index_tree(tree):
    """name -> (path components, list of repeat ancestor paths (outermost first), kind)"""
    out = {}

    def go(t, pre, reps):
        name = t[1]
        p = [*pre, name]
        out.setdefault(name, []).append((p, list(reps), t[0]))
        kids = t[4] if t[0] == "G" else (t[3] if t[0] == "R" else [])
        for k in kids:
            go(k, p, [*reps, p] if t[0] == "R" else reps)
    go(tree, [], [])
    return out


def evaluate(path_text: str, ctx_path: list[str]):
    """denotation of a substituted path, evaluated from the node the cell belongs to"""
    m = PATH_RE.search(path_text)
    if not m:
        return None
    last_saved, current, p = m.group(1), m.group(2), m.group(3)
    if p.startswith("/"):
        return {"abs": True, "path": p.strip("/").split("/"), "current": bool(current), "last_saved": bool(last_saved), "text": m.group(0)}
    cur = list(ctx_path)
    parts = p.split("/")
    for part in parts:
        if part == "..":
            if not cur:
                return {"abs": False, "path": None, "current": bool(current), "last_saved": bool(last_saved), "text": m.group(0)}
            cur.pop()
        else:
            cur.append(part)
    return {"abs": False, "path": cur, "current": bool(current), "last_saved": bool(last_saved), "text": m.group(0)}


def must_be_relative(ctx_info, tgt_info):
    """the target's innermost enclosing repeat also encloses the referrer"""
    cpath, creps, _ = ctx_info
    tpath, treps, _ = tgt_info
    if not treps:
        return False
    inner = treps[-1]
    return cpath[:len(inner)] == inner and len(cpath) > len(inner)


def find_attr(root, ctx_path_text, cell):
    X = xf.XF
    model = root.find(xf.H + "head").find(X + "model")
    body = root.find(xf.H + "body")
    if cell in ("relevant", "constraint", "calculation", "required", "read_only"):
        attr = {"calculation": "calculate", "read_only": "readonly"}.get(cell, cell)
        for b in model.iter(X + "bind"):
            if b.get("nodeset") == ctx_path_text:
                return b.get(attr)
        return None
    if cell == "default":
        for s in root.iter(X + "setvalue"):
            if s.get("ref") == ctx_path_text and "value-changed" not in (s.get("event") or ""):
                return s.get("value")
        return None
    if cell in ("label", "hint"):
        for e in body.iter():
            if isinstance(e.tag, str) and (e.get("ref") == ctx_path_text or e.get("nodeset") == ctx_path_text):
                el = e.find(X + cell)
                if el is None and e.tag == X + "repeat":
                    continue
                if el is not None:
                    if el.get("ref"):
                        m = re.match(r"jr:itext\('(.*)'\)", el.get("ref"))
                        for t in root.iter(X + "text"):
                            if t.get("id") == m.group(1):
                                outs = list(t.iter(X + "output"))
                                return outs[0].get("value") if outs else None
                    outs = list(el.iter(X + "output"))
                    return outs[0].get("value") if outs else None
        return None
    if cell == "choice_filter":
        for e in body.iter(X + "itemset"):
            par = e.getparent()
            if par.get("ref") == ctx_path_text:
                ns = e.get("nodeset")
                i = ns.find("[")
                return ns[i + 1:-1] if i >= 0 else None
        return None
    if cell == "seed":
        for e in body.iter(X + "itemset"):
            par = e.getparent()
            if par.get("ref") == ctx_path_text:
                m = re.match(r"^randomize\((.*),(.*)\)$", e.get("nodeset") or "")
                return m.group(2) if m else None
        return None
    if cell == "query":
        for e in body.iter(X + "input"):
            if e.get("ref") == ctx_path_text and e.get("query"):
                q = e.get("query")
                i = q.find("[")
                return q[i + 1:-1] if i >= 0 else None
        return None
    if cell == "repeat_count":
        for e in body.iter(X + "repeat"):
            if e.get("nodeset") == ctx_path_text:
                return e.get("{http://openrosa.org/javarosa}count")
        return None
    return None
