#!/venv/bin/python
"""seedrun.py <PID> [<mutation dir> ...] — confirm seeded changes and run the check against each.

For each seeded_out/m<i> directory of a sub-agent worktree (or an existing /verif/seeded/<id>):
  1. the demonstration passes on the unmodified /repo and fails with the patch applied,
  2. (optionally, --tests) the existing suite has no new failures with the patch,
  3. the property's quick check is run with the patch applied to /repo, then the patch is undone.
Results are written to /verif/seeded/<PID>-m<i>/meta.json.
"""
import json
import shutil
import subprocess
import sys
from pathlib import Path

VERIF = Path(__file__).resolve().parent.parent
import os
REPO = Path(os.environ.get("VERIF_REPO", "/repo"))


def sh(cmd, **kw):
    return subprocess.run(cmd, shell=True, capture_output=True, text=True, **kw)


def main():
    args = [a for a in sys.argv[1:] if not a.startswith("--")]
    offset = next((int(a.split("=")[1]) for a in sys.argv[1:] if a.startswith("--offset=")), 0)   # second round: m1 -> m4 ...
    pid = args[0]
    dirs = [Path(a) for a in args[1:]] or sorted(Path(f"/tmp/seed/{pid}/seeded_out").glob("m*"))
    tier = "quick"
    for d in dirs:
        name = f"{pid}-{d.name}" if not d.name.startswith(pid) else d.name
        if offset and not d.name.startswith(pid):
            name = f"{pid}-m{int(d.name[1:]) + offset}"
        dest = VERIF / "seeded" / name
        if d.resolve() != dest.resolve():
            dest.mkdir(parents=True, exist_ok=True)
            for f in ("patch.diff", "demo.py", "meta.json"):
                if (d / f).exists():
                    shutil.copy(d / f, dest / f)
        meta = json.loads((dest / "meta.json").read_text()) if (dest / "meta.json").exists() else {}
        assert sh(f"git -C {REPO} status --porcelain -- pyxform").stdout.strip() == "", "/repo is dirty"
        env = f"PYTHONPATH={REPO} PYTHONHASHSEED=0"
        before = sh(f"cd /tmp && {env} timeout 300 /venv/bin/python {dest}/demo.py")
        evf = VERIF / "evidence" / f"{pid}.json"
        ev_backup = evf.read_text() if evf.exists() else None
        ap = sh(f"git -C {REPO} apply {dest}/patch.diff")
        if ap.returncode != 0:
            print(name, "PATCH DOES NOT APPLY", ap.stderr[:300])
            continue
        try:
            after = sh(f"cd /tmp && {env} timeout 300 /venv/bin/python {dest}/demo.py")
            chk = sh(f"cd {VERIF} && timeout 3000 /venv/bin/python harness/check.py {pid} --tier {tier}")
            replay = None
            for line in chk.stdout.splitlines():
                if line.startswith("VIOLATION"):
                    replay = line
            rp = None
            if replay and "replay=" in replay:
                path = replay.split("replay=")[1].split()[0]
                try:
                    rp = json.loads(Path(path).read_text())
                except Exception:
                    rp = None
        finally:
            sh(f"git -C {REPO} checkout -- pyxform")
            if ev_backup is not None:
                evf.write_text(ev_backup)   # evidence must come from the unchanged tree only
        meta["confirmed"] = {"demo_unmodified_exit": before.returncode, "demo_patched_exit": after.returncode}
        meta["check"] = {"cmd": f"harness/check.py {pid} --tier {tier}", "exit": chk.returncode, "violation_line": replay,
                         "what": (rp or {}).get("what") or [b.get("what") for b in (rp or {}).get("broken", [])][:3],
                         "kind": (rp or {}).get("kind")}
        (dest / "meta.json").write_text(json.dumps(meta, indent=1, ensure_ascii=False) + "\n")
        ok_demo = before.returncode == 0 and after.returncode != 0
        print(f"{name}: demo {'confirmed' if ok_demo else 'NOT CONFIRMED (%d/%d)' % (before.returncode, after.returncode)}; "
              f"check exit {chk.returncode}; {replay or 'no violation'}; {str(meta['check']['what'])[:200]}")


if __name__ == "__main__":
    main()
