#!/venv/bin/python
"""setup_cmd: regenerate Gen/ from /repo and build the whole Coq development from files on disk."""
import sys
from pathlib import Path

sys.path.insert(0, str(Path(__file__).resolve().parent))
import engine  # noqa: E402
from common import VERIF  # noqa: E402

st = engine.build(VERIF / "build" / "make-setup.log")
print("gen:", st["gen"])
print("build ok" if st["ok"] else "build FAILED: " + ", ".join(st["failed"]))
if not st["ok"]:
    print(st["log"][-3000:])
bad = engine.source_scan()
for b in bad:
    print("SCAN:", b)
sys.exit(0 if st["ok"] and not bad else 1)
