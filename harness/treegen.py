"""Random survey element trees (stage C input) for the tree ops of C02/C03/C04/C10."""

from __future__ import annotations

from common import cstr, clist, cbool

NAMES = ["a", "b", "c", "q", "q1", "g", "g1", "r", "r1", "r2", "n", "x_y", "A", "B", "age", "name_", "s", "t", "u", "v", "w", "k1", "k2", "k3", "m_", "zz"]


def gen_tree(rng, unique=True, max_depth=4, max_kids=4):
    """('Q', name, has_bind, has_control) | ('G', name, has_bind, bodyless, kids) | ('R', name, has_bind, kids)"""
    used = set()
    counter = [0]

    def fresh():
        for _ in range(50):
            n = rng.choice(NAMES)
            if rng.random() < 0.5:
                n = n + str(rng.randrange(6))
            if not unique and rng.random() < 0.12 and used:
                cand = rng.choice(sorted(used))
                return cand.upper() if rng.random() < 0.3 else cand
            if n.lower() not in {u.lower() for u in used}:
                used.add(n)
                return n
        counter[0] += 1
        n = f"u{counter[0]}"
        used.add(n)
        return n

    def node(depth):
        r = rng.random()
        if depth < max_depth and r < 0.22:
            return ("G", fresh(), rng.random() < 0.4, False, kids(depth + 1))
        if depth < max_depth and r < 0.42:
            return ("R", fresh(), rng.random() < 0.3, kids(depth + 1))
        kind = rng.random()
        if kind < 0.6:
            return ("Q", fresh(), True, True)          # text
        if kind < 0.85:
            return ("Q", fresh(), True, False)         # calculate
        return ("Q", fresh(), False, True)             # trigger (acknowledge): control, no bind

    def kids(depth):
        return [node(depth) for _ in range(rng.randint(1, max_kids))]

    top = kids(1)
    if rng.random() < 0.7:
        top.append(("G", "meta", False, True, [("Q", "instanceID", True, False)]))
    return ("G", "data", False, False, top)


def to_coq(t) -> str:
    if t[0] == "Q":
        return f"(Q {cstr(t[1])} {cbool(t[2])} {cbool(t[3])})"
    if t[0] == "G":
        return f"(G {cstr(t[1])} {cbool(t[2])} {cbool(t[3])} {clist([to_coq(k) for k in t[4]], 'elem')})"
    return f"(R {cstr(t[1])} {cbool(t[2])} {clist([to_coq(k) for k in t[3]], 'elem')})"


def to_json(t, root=True):
    """the dict create_survey_element_from_dict accepts"""
    if t[0] == "Q":
        _, name, has_bind, has_control = t
        if has_bind and has_control:
            return {"type": "text", "name": name, "label": "L " + name}
        if has_bind:
            return {"type": "calculate", "name": name, "bind": {"calculate": "1"}}
        return {"type": "trigger", "name": name, "label": "T " + name}
    if t[0] == "G":
        _, name, has_bind, bodyless, kids = t
        d = {"type": "survey" if root else "group", "name": name, "children": [to_json(k, False) for k in kids]}
        if root:
            d.update({"id_string": "tree", "title": "tree"})
        else:
            if bodyless:
                d["control"] = {"bodyless": True}
            else:
                d["label"] = "G " + name
            if has_bind:
                d["bind"] = {"relevant": "true()"}
        return d
    _, name, has_bind, kids = t
    d = {"type": "repeat", "name": name, "label": "R " + name, "children": [to_json(k, False) for k in kids]}
    if has_bind:
        d["bind"] = {"relevant": "true()"}
    return d


def size(t):
    ks = t[4] if t[0] == "G" else (t[3] if t[0] == "R" else [])
    return 1 + sum(size(k) for k in ks)
