"""Helpers to run the real converter and to inspect XForms with lxml (direct oracles)."""

from __future__ import annotations

import copy

from lxml import etree

NS = {
    "xf": "http://www.w3.org/2002/xforms", "h": "http://www.w3.org/1999/xhtml", "jr": "http://openrosa.org/javarosa",
    "orx": "http://openrosa.org/xforms", "odk": "http://www.opendatakit.org/xforms",
    "ev": "http://www.w3.org/2001/xml-events", "ent": "http://www.opendatakit.org/xforms/entities",
}
XF = "{http://www.w3.org/2002/xforms}"
H = "{http://www.w3.org/1999/xhtml}"


def lparse(xml: str):
    parser = etree.XMLParser(resolve_entities=False, remove_blank_text=False, huge_tree=True)
    return etree.fromstring(xml.encode("utf-8"), parser)


def is_ws(s):
    return s is None or s.strip(" \t\r\n") == ""


def norm_tree(e):
    """(tag, attrs, children) with whitespace-only text dropped inside elements that have element
    children and no other text — the C15 equivalence."""
    kids = []
    texts = []
    if e.text:
        kids.append(("#", e.text))
        texts.append(e.text)
    has_el = False
    for c in e:
        if not isinstance(c.tag, str):
            kids.append(("#other", etree.tostring(c).decode()))
            continue
        has_el = True
        kids.append(norm_tree(c))
        if c.tail:
            kids.append(("#", c.tail))
            texts.append(c.tail)
    if has_el and all(is_ws(t) and "\n" in t for t in texts):
        # layout only: the pretty writer's own text nodes are a line break plus indentation. White space WITHOUT a line break (a
        # space between two <output/>s of a label) is text content and must survive in both modes.
        kids = [k for k in kids if k[0] != "#"]
    else:
        merged = []
        for k in kids:
            if k[0] == "#" and merged and merged[-1][0] == "#":
                merged[-1] = ("#", merged[-1][1] + k[1])
            else:
                merged.append(k)
        kids = merged
    return (e.tag, tuple(sorted(e.attrib.items())), tuple(sorted((e.nsmap or {}).items(), key=lambda kv: (kv[0] or "", kv[1]))), tuple(kids))


def convert_form(form_dict, **kw):
    """Run the real pipeline on a dict workbook. Returns ('ok', ConvertResult) | ('pyxerr', exc) | ('crash', exc)."""
    from pyxform.xls2xform import convert
    from pyxform.errors import PyXFormError

    try:
        return "ok", convert(copy.deepcopy(form_dict), **kw)
    except PyXFormError as e:
        return "pyxerr", e
    except Exception as e:  # noqa: BLE001
        return "crash", e


# ---- semantic XForm equality (DESIGN.md Appendix D) ------------------------------------------------------------------
def _local(e):
    return etree.QName(e).localname if isinstance(e.tag, str) else "#other"


def semantic_canon(xml: str, item_children_ordered: bool = True):
    """Nested tuples equal for semantically equal XForms: attribute order and the order of namespace declarations ignored; inside
    `model` the order of bind / setvalue / action / secondary instance elements among themselves ignored, as is the order of
    translation (by lang), text (by id) and value (by form); everything else — primary instance, body, items — ordered; text exact."""
    root = lparse(xml)

    def key_of(e):
        return (e.tag, e.get("nodeset") or e.get("ref") or e.get("id") or e.get("lang") or e.get("form") or "")

    def canon(e, where):
        if not isinstance(e.tag, str):
            return ("#other", etree.tostring(e).decode())
        kids = [c for c in e if isinstance(c.tag, str)]
        texts = [e.text or ""] + [c.tail or "" for c in e]
        ln = _local(e)
        if e.tag == XF + "model":
            first_inst = next((c for c in kids if c.tag == XF + "instance"), None)
            fixed = [c for c in kids if c is first_inst or c.tag in (XF + "itext", XF + "submission")]
            loose = [c for c in kids if c not in fixed]
            ck = [canon(c, ln) for c in fixed] + sorted((canon(c, ln) for c in loose), key=repr)
        elif e.tag in (XF + "itext", XF + "translation", XF + "text") and where != "instance-data":
            ck = sorted((canon(c, ln) for c in kids), key=lambda t: repr(t[:2]))
        elif ln == "item" and not item_children_ordered:
            ck = sorted((canon(c, ln) for c in kids), key=repr)
        else:
            ck = [canon(c, ln) for c in kids]
        if kids and all(is_ws(t) for t in texts):
            texts = []
        return (e.tag, tuple(sorted(e.attrib.items())), tuple(sorted((e.nsmap or {}).items(), key=lambda kv: (kv[0] or "", kv[1]))) if e is root else (),
                tuple(texts), tuple(ck))
    return canon(root, "")


def first_difference(a, b, path=""):
    """human-readable location of the first difference between two semantic_canon values"""
    if a == b:
        return None
    if not (isinstance(a, tuple) and isinstance(b, tuple) and len(a) == 5 and len(b) == 5):
        return f"{path}: {str(a)[:120]} vs {str(b)[:120]}"
    if a[0] != b[0]:
        return f"{path}: element {a[0]} vs {b[0]}"
    here = f"{path}/{a[0].split('}')[-1]}" + (f"[{dict(a[1]).get('id') or dict(a[1]).get('ref') or dict(a[1]).get('nodeset') or dict(a[1]).get('lang') or ''}]" if a[1] else "")
    if a[1] != b[1]:
        return f"{here}: attributes {a[1]} vs {b[1]}"
    if a[2] != b[2]:
        return f"{here}: namespace declarations differ"
    if a[3] != b[3]:
        return f"{here}: text {a[3]} vs {b[3]}"
    if len(a[4]) != len(b[4]):
        return f"{here}: {len(a[4])} children vs {len(b[4])}"
    for x, y in zip(a[4], b[4]):
        d = first_difference(x, y, here)
        if d:
            return d
    return f"{here}: differ"
