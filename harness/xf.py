"""Helpers to run the real converter and to inspect XForms with lxml (direct oracles)."""

from __future__ import annotations

import copy

from lxml import etree

NS = {
    "xf": "http://www.w3.org/2002/xforms", "h": "http://www.w3.org/1999/xhtml", "jr": "http://openrosa.org/javarosa",
    "orx": "http://openrosa.org/xforms", "odk": "http://www.opendatakit.org/xforms",
    "ev": "http://www.w3.org/2001/xml-events", "ent": "http://www.opendatakit.org/xforms/entities",
}
XF = "{http://www.w3.org/2002/xforms}"
H = "{http://www.w3.org/1999/xhtml}"


def lparse(xml: str):
    parser = etree.XMLParser(resolve_entities=False, remove_blank_text=False, huge_tree=True)
    return etree.fromstring(xml.encode("utf-8"), parser)


def is_ws(s):
    return s is None or s.strip(" \t\r\n") == ""


def norm_tree(e):
    """(tag, attrs, children) with whitespace-only text dropped inside elements that have element
    children and no other text — the C15 equivalence."""
    kids = []
    texts = []
    if e.text:
        kids.append(("#", e.text))
        texts.append(e.text)
    has_el = False
    for c in e:
        if not isinstance(c.tag, str):
            kids.append(("#other", etree.tostring(c).decode()))
            continue
        has_el = True
        kids.append(norm_tree(c))
        if c.tail:
            kids.append(("#", c.tail))
            texts.append(c.tail)
    if has_el and all(is_ws(t) for t in texts):
        kids = [k for k in kids if k[0] != "#"]
    else:
        merged = []
        for k in kids:
            if k[0] == "#" and merged and merged[-1][0] == "#":
                merged[-1] = ("#", merged[-1][1] + k[1])
            else:
                merged.append(k)
        kids = merged
    return (e.tag, tuple(sorted(e.attrib.items())), tuple(sorted((e.nsmap or {}).items(), key=lambda kv: (kv[0] or "", kv[1]))), tuple(kids))


def convert_form(form_dict, **kw):
    """Run the real pipeline on a dict workbook. Returns ('ok', ConvertResult) | ('pyxerr', exc) | ('crash', exc)."""
    from pyxform.xls2xform import convert
    from pyxform.errors import PyXFormError

    try:
        return "ok", convert(copy.deepcopy(form_dict), **kw)
    except PyXFormError as e:
        return "pyxerr", e
    except Exception as e:  # noqa: BLE001
        return "crash", e
